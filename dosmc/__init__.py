"""dosmc - model checking of aiidateam/disk-objectstore on the real implementation.

Engines:  seqx (E1, explicit-state search over operation histories), sched (E2, pre-emption bounded
schedule exploration), crashx (E3, crash points / power-loss images / single faults), streamx (E4, program
space of a stream), grids (E5, finite input/configuration lattices).  See /verif/DESIGN.md.
"""
