"""CLI:  python -m dosmc check <ID> [--tier quick|thorough]   |   python -m dosmc replay <file>

Re-executes itself once with PYTHONHASHSEED derived from VERIF_SEED so that set/dict iteration order of strings is
fixed inside a run and varied across seeds.
"""
import argparse
import importlib
import json
import os
import sys
import traceback


def _reexec_with_hashseed():
    from .common import seed
    want = str(seed() % 4294967295)
    if os.environ.get('PYTHONHASHSEED') != want or os.environ.get('DOSMC_REEXEC') != '1':
        env = dict(os.environ, PYTHONHASHSEED=want, DOSMC_REEXEC='1', PYTHONDONTWRITEBYTECODE='1')
        os.execve(sys.executable, [sys.executable, '-m', 'dosmc'] + sys.argv[1:], env)


def main():
    ap = argparse.ArgumentParser(prog='dosmc')
    sub = ap.add_subparsers(dest='cmd', required=True)
    c = sub.add_parser('check')
    c.add_argument('prop')
    c.add_argument('--tier', choices=['quick', 'thorough'], default=None)
    r = sub.add_parser('replay')
    r.add_argument('file')
    args = ap.parse_args()
    _reexec_with_hashseed()
    import gc
    gc.disable()
    from .common import InternalError, log, sweep_stale_scratch
    from .report import Report
    sweep_stale_scratch()
    if args.cmd == 'check':
        tier = args.tier or os.environ.get('VERIF_TIER') or 'quick'
        if tier not in ('quick', 'thorough'):
            tier = 'quick'
        mod = importlib.import_module(f'dosmc.checks.{args.prop.lower()}')
        rep = Report(args.prop.upper(), tier, mod.LEVEL)
        try:
            mod.run(tier, rep)
        except InternalError as exc:
            log(f'INTERNAL ERROR in {args.prop}: {exc}')
            sys.exit(3)
        except Exception:  # pylint: disable=broad-except
            log(f'INTERNAL ERROR in {args.prop}:\n{traceback.format_exc()}')
            sys.exit(3)
        sys.exit(rep.finish())
    else:
        with open(args.file, encoding='utf8') as fh:
            body = json.load(fh)
        mod = importlib.import_module(f'dosmc.checks.{body["property"].lower()}')
        out = mod.replay(body['case'])
        print(json.dumps({'property': body['property'], 'recorded_clause': body['clause'], 'replayed': out}, indent=1, default=repr))
        sys.exit(1 if out else 0)


if __name__ == '__main__':
    main()
