"""One module per property: each exposes LEVEL, run(tier, report) and optionally replay(case)."""
