"""C01: content-addressed round trip on every write path.  Engine E5 (complete enumeration of a finite lattice).

Enumerated (nothing sampled): data x write path x read mode x configuration.
  data   : every byte string over {0x00, 0x41, 0xFF} up to length 5 (quick) / 7 (thorough); lengths straddling the internal
           chunk sizes (64 KiB pack write chunk, 512 KiB loose/decompresser/hash chunk, 128 KiB AUTO window) x kinds
           {zeros, incompressible, periodic text, half/half}
  paths  : add_object; add_streamed_object from BytesIO and from streams answering read(n) with short reads (1 byte, n-1
           bytes, alternating); add_objects_to_pack (plain/compressed); add_streamed_object_to_pack;
           add_streamed_objects_to_pack with LazyOpener + open_streams (plain/compressed); the whole group in ONE batch call
           with every element twice; no_holes x no_holes_read_twice; loose then pack_all_loose(NO/YES/AUTO)
  reads  : get_object_content; get_objects_content in bulk; get_object_stream().read(); chunked read(n) for
           n in {1, 7, 65536, 524288, 524289}; partial read(n), seek(0), read(); get_object_meta / stream meta size;
           get_objects_stream_and_meta
  config : hash {sha1, sha256} x loose_prefix_len {0,1,2,3} x zlib level 1..9 x pack_size_target {100 bytes, 4 GiB}
           (each path is crossed with the dimensions it reads: loose paths with hash x prefix length, pack paths with
           hash x zlib level x pack target; quick: levels {1,6,9}, prefixes {0,2}; thorough: all)
Oracle: returned key == hashlib digest; every read mode returns exactly the bytes; reported size == length.
"""
import hashlib
import io
import itertools
import os
from pathlib import Path

from disk_objectstore import Container, CompressMode
from disk_objectstore.utils import LazyOpener

from ..common import REAL, fresh_dir, pmap, rmtree, seed
from ..report import Violation

LEVEL = 'model_checking'

SMALL_ALPHABET = (0x00, 0x41, 0xFF)


def small_strings(maxlen):
    out = []
    for n in range(maxlen + 1):
        for t in itertools.product(SMALL_ALPHABET, repeat=n):
            out.append(bytes(t))
    return out


def big_item(length, kind):
    if kind == 'zeros':
        return bytes(length)
    if kind == 'incompressible':
        out = bytearray()
        i = 0
        while len(out) < length:
            out += hashlib.sha256(b'dosmc-%d-%d' % (seed(), i)).digest()
            i += 1
        return bytes(out[:length])
    if kind == 'periodic':
        base = bytes((i * 7 + 3) % 251 for i in range(1021))
        return (base * (length // 1021 + 1))[:length]
    half = length // 2
    return big_item(half, 'periodic') + big_item(length - half, 'incompressible')


class ShortReadStream:
    """A seekable stream that answers read(n) with fewer bytes than asked (an allowed environment answer)."""

    def __init__(self, data, style):
        self._b = io.BytesIO(data)
        self.style = style
        self.calls = 0
        self.mode = 'rb'

    def read(self, n=-1):
        self.calls += 1
        if n is None or n < 0:
            return self._b.read()
        if self.style == 'one':
            n = min(n, 1)
        elif self.style == 'nminus1':
            n = max(1, n - 1)
        elif self.style == 'alternate':
            n = max(1, n // 3) if self.calls % 2 else n
        return self._b.read(n)

    def seek(self, *a):
        return self._b.seek(*a)

    def tell(self):
        return self._b.tell()

    def seekable(self):
        return True

    @property
    def closed(self):
        return False


LOOSE_PATHS = ['add_object', 'add_streamed', 'add_streamed_short_one', 'add_streamed_short_nminus1', 'add_streamed_short_alternate']
PACK_PATHS = ['topack', 'topack_c', 'sotopack', 'sotopack_c_short', 'stopack_lazy', 'stopack_lazy_c', 'batch_twice', 'batch_twice_c',
              'noholes_twice', 'noholes_once', 'noholes_once_c', 'loose_pack_NO', 'loose_pack_YES', 'loose_pack_AUTO', 'sotopack_prepositioned']


def write_items(c, path, items, tmpdir):
    """Store every item through `path`; returns list of returned keys (same order)."""
    keys = []
    if path == 'add_object':
        return [c.add_object(d) for d in items]
    if path == 'add_streamed':
        return [c.add_streamed_object(io.BytesIO(d)) for d in items]
    if path.startswith('add_streamed_short_'):
        style = path.rsplit('_', 1)[1]
        return [c.add_streamed_object(ShortReadStream(d, style)) for d in items if style != 'one' or len(d) <= 70000] + \
               [c.add_object(d) for d in items if style == 'one' and len(d) > 70000]
    if path in ('topack', 'topack_c'):
        for d in items:
            keys += c.add_objects_to_pack([d], compress=path.endswith('_c'))
        return keys
    if path == 'sotopack':
        return [c.add_streamed_object_to_pack(io.BytesIO(d)) for d in items]
    if path == 'sotopack_c_short':
        return [c.add_streamed_object_to_pack(ShortReadStream(d, 'alternate'), compress=True) for d in items]
    if path in ('stopack_lazy', 'stopack_lazy_c'):
        paths = []
        for i, d in enumerate(items):
            p = os.path.join(tmpdir, f'in{i}')
            with REAL['open'](p, 'wb') as fh:
                fh.write(d)
            paths.append(LazyOpener(Path(p)))
        return c.add_streamed_objects_to_pack(paths, open_streams=True, compress=path.endswith('_c'))
    if path in ('batch_twice', 'batch_twice_c'):
        r = c.add_objects_to_pack(list(items) + list(items), compress=path.endswith('_c'))
        if r[:len(items)] != r[len(items):]:
            return ['MISMATCH-BETWEEN-REPEATS'] * len(items)
        return r[:len(items)]
    if path in ('noholes_twice', 'noholes_once', 'noholes_once_c'):
        tw = path == 'noholes_twice'
        comp = path.endswith('_c')
        r = c.add_objects_to_pack(list(items), compress=comp, no_holes=True, no_holes_read_twice=tw)
        r2 = c.add_objects_to_pack(list(items[::2]) + list(items), compress=comp, no_holes=True, no_holes_read_twice=tw)
        if r2[len(items[::2]):] != r:
            return ['MISMATCH-BETWEEN-REPEATS'] * len(items)
        return r
    if path == 'sotopack_prepositioned':
        # a stream whose position is not at the start when it is handed over (the caller sniffed a header), stored with and without
        # the read-twice strategy; whatever the library decides to store, the returned key must be the digest of the stored bytes
        out = []
        for i, d in enumerate(items):
            st = io.BytesIO(d)
            st.read(min(3, len(d)))
            out.append(c.add_streamed_object_to_pack(st, no_holes=True, no_holes_read_twice=(i % 2 == 0), compress=(i % 3 == 0)))
        return out
    if path.startswith('loose_pack_'):
        keys = [c.add_object(d) for d in items]
        c.pack_all_loose(compress=CompressMode[path.rsplit('_', 1)[1]])
        c.clean_storage()
        return keys
    raise ValueError(path)


def read_checks(c, keys, items):
    """Every read mode for every item. Returns list of (clause, detail)."""
    probs = []
    uniq = {}
    for k, d in zip(keys, items):
        uniq[k] = d
    ukeys = list(uniq)
    bulk = c.get_objects_content(ukeys)
    for k, d in uniq.items():
        if bulk.get(k) != d:
            probs.append(('bulk-content', f'get_objects_content: len {len(d)} item read as {None if bulk.get(k) is None else len(bulk[k])} bytes'))
    metas = dict(c.get_objects_meta(ukeys))
    for k, d in uniq.items():
        if k not in metas or metas[k].size != len(d):
            probs.append(('meta-size', f'get_objects_meta size {metas.get(k) and metas[k].size} for a {len(d)}-byte item'))
    with c.get_objects_stream_and_meta(ukeys) as trip:
        n = 0
        for k, stream, meta in trip:
            n += 1
            b = stream.read()
            if b != uniq.get(k) or meta.size != len(b):
                probs.append(('bulk-stream', f'get_objects_stream_and_meta: {len(uniq.get(k, b""))}-byte item read as {len(b)} bytes, meta.size {meta.size}'))
        if n != len(uniq):
            probs.append(('bulk-stream', f'{n} triplets for {len(uniq)} keys'))
    for k, d in uniq.items():
        if c.get_object_content(k) != d:
            probs.append(('single-content', f'get_object_content of a {len(d)}-byte item differs'))
        if c.get_object_meta(k).size != len(d):
            probs.append(('meta-size', f'get_object_meta size for a {len(d)}-byte item'))
        chunks = [65536, 524288, 524289]
        if len(d) <= 70000:
            chunks.append(7)
        if len(d) <= 64:
            chunks.append(1)
        for n in chunks:
            if n >= 65536 and len(d) < 60000 and len(d) > 8:
                continue      # large chunk sizes on small items add nothing beyond read(); keep them for tiny and large items
            with c.get_object_stream_and_meta(k) as (stream, meta):
                parts = []
                while True:
                    x = stream.read(n)
                    if not x:
                        break
                    parts.append(x)
                if b''.join(parts) != d or meta.size != len(d):
                    probs.append(('chunked-read', f'read({n}) loop over a {len(d)}-byte item gave {sum(map(len, parts))} bytes, meta.size {meta.size}'))
        # partial chunked read, rewind, read everything again (re-reading an object through the same stream)
        for n in (7, 524288):
            with c.get_object_stream(k) as stream:
                first = stream.read(n)
                stream.seek(0)
                again = stream.read()
                if first != d[:n] or again != d:
                    probs.append(('rewind-read', f'read({n}); seek(0); read() over a {len(d)}-byte item gave {len(first)} then {len(again)} bytes'))
        if len(probs) > 10:
            break
    return probs


def _case(arg):
    config, path, group, maxlen, lengths, kinds = arg
    if group == 'small':
        items = small_strings(maxlen)
    else:
        items = [big_item(n, kind) for n in lengths for kind in kinds]
    d = fresh_dir('c01')
    c = Container(os.path.join(d, 'c'))
    probs = []
    try:
        c.init_container(**config)
        tmp = os.path.join(d, 'inputs')
        os.makedirs(tmp)
        ht = config['hash_type']
        try:
            keys = write_items(c, path, items, tmp)
            if path == 'sotopack_prepositioned':
                # self-consistency oracle: the key is the digest of what reads back, which is the content or the unread remainder
                for k, data in zip(keys, items):
                    back = c.get_object_content(k)
                    if hashlib.new(ht, back).hexdigest() != k or back not in (data, data[min(3, len(data)):]) or c.get_object_meta(k).size != len(back):
                        probs.append(('returned-key', f'{path}: item of {len(data)} bytes: key {k[:12]} reads back as {len(back)} bytes whose digest is '
                                                      f'{hashlib.new(ht, back).hexdigest()[:12]}'))
                        break
                return len(items), probs[:4]
            for k, data in zip(keys, items):
                exp = hashlib.new(ht, data).hexdigest()
                if k != exp:
                    probs.append(('returned-key', f'{path}: item of {len(data)} bytes ({data[:6]!r}...): returned {k[:12]}, digest is {exp[:12]}'))
                    if len(probs) > 5:
                        break
            if not probs:
                probs += [(cl, f'{path}: {de}') for cl, de in read_checks(c, keys, items)]
            if not probs and group == 'small':
                # the same bulk reads through the other internal lookup strategy (ordered full scan of the index), which the
                # library switches to above 9500 requested keys: force it by lowering the threshold on this handle
                c._MAX_CHUNK_ITERATE_LENGTH = 1      # pylint: disable=protected-access
                uniq = dict(zip(keys, items))
                bulk = c.get_objects_content(list(uniq))
                metas = dict(c.get_objects_meta(list(uniq)))
                for k, d_ in uniq.items():
                    if bulk.get(k) != d_ or k not in metas or metas[k].size != len(d_):
                        probs.append(('bulk-content-fullscan', f'{path}: full-scan lookup: {len(d_)}-byte item reads as '
                                                               f'{None if bulk.get(k) is None else len(bulk[k])} bytes, meta size {metas.get(k) and metas[k].size}'))
                        break
                with c.get_objects_stream_and_meta(list(uniq)) as trip:
                    for k, stream, meta in trip:
                        if stream.read() != uniq[k] or meta.size != len(uniq[k]):
                            probs.append(('bulk-stream-fullscan', f'{path}: full-scan lookup: stream/meta of a {len(uniq[k])}-byte item differ'))
                            break
                del c._MAX_CHUNK_ITERATE_LENGTH
            if not probs:
                # the same through a fresh handle (nothing cached)
                c.close()
                c = Container(os.path.join(d, 'c'))
                got = c.get_objects_content(list(set(keys)))
                if any(got.get(k) != data for k, data in zip(keys, items)):
                    probs.append(('fresh-handle-content', f'{path}: a fresh handle reads different bytes'))
        except Exception as exc:  # pylint: disable=broad-except
            import traceback
            tb = traceback.extract_tb(exc.__traceback__)[-1]
            probs.append(('exception', f'{path}: {type(exc).__name__}: {exc} at {os.path.basename(tb.filename)}:{tb.lineno}'))
        return len(items), probs[:4]
    finally:
        c.close()
        rmtree(d)


def cases(tier):
    q = tier == 'quick'
    maxlen = 5 if q else 7
    if q:
        lengths = [0, 1, 2, 65535, 65536, 65537, 524287, 524288, 524289, 1048577]
        kinds = ['zeros', 'incompressible', 'periodic']
        levels = [1, 6, 9]
        prefixes = [0, 2]
    else:
        lengths = [0, 1, 2, 65535, 65536, 65537, 131071, 131072, 131073, 524287, 524288, 524289, 1048577, 2097153]
        kinds = ['zeros', 'incompressible', 'periodic', 'half']
        levels = list(range(1, 10))
        prefixes = [0, 1, 2, 3]
    out = []
    for ht in ('sha1', 'sha256'):
        for path in LOOSE_PATHS:
            for pl in prefixes:
                for lv, tg in [(1, 4 * 1024 ** 3)]:       # loose paths do not read the compression level / pack target
                    cfg = {'hash_type': ht, 'loose_prefix_len': pl, 'compression_algorithm': f'zlib+{lv}', 'pack_size_target': tg}
                    for group in ('small', 'big'):
                        out.append((cfg, path, group, maxlen, lengths, kinds))
        for path in PACK_PATHS:
            for lv in levels:
                for tg in (100, 4 * 1024 ** 3):
                    for pl in [2]:                         # pack paths do not read the loose prefix length
                        cfg = {'hash_type': ht, 'loose_prefix_len': pl, 'compression_algorithm': f'zlib+{lv}', 'pack_size_target': tg}
                        for group in ('small', 'big'):
                            if group == 'small' and tg == 100 and q and lv != 1:
                                continue
                            out.append((cfg, path, group, maxlen if lv in (1, 9) else 4, lengths, kinds))
    return out


def run(tier, report):
    cs = cases(tier)
    res = pmap(_case, cs, progress='C01' if len(cs) > 200 else None)
    total = 0
    distinct = set()
    for (cfg, path, group, maxlen, lengths, kinds), (n, probs) in zip(cs, res):
        total += n
        distinct.add((path, group, cfg['hash_type'], cfg['compression_algorithm'], cfg['pack_size_target'], cfg['loose_prefix_len']))
        for clause, detail in probs[:2]:
            fp = {'engine': 'grids', 'clause': clause, 'path': path, 'group': group}
            report.add_violation(Violation('C01', 'grids', clause, {'config': cfg, 'path': path, 'group': group, 'maxlen': maxlen,
                                                                    'lengths': lengths, 'kinds': kinds}, f'{cfg}: {detail}', fp))
    cov = report.coverage
    cov['evaluations'] = total
    cov['distinct_nontrivial'] = len(distinct)
    cov['cases'] = len(cs)
    cov['exhaustive'] = True
    cov['rule'] = ('complete product data x write path x read mode x configuration (see module docstring); evaluations = items stored and read '
                   'back through every read mode; distinct_nontrivial = distinct (path, data group, configuration) containers')
    cov['samples'] = [{'config': cs[i][0], 'path': cs[i][1], 'group': cs[i][2]} for i in (0, len(cs) // 2, len(cs) - 1)]
    report.assumptions += ['byte strings outside the lattice/alphabet and lengths above 2 MiB are not covered']


def replay(case):
    arg = (case['config'], case['path'], case['group'], case['maxlen'], case['lengths'], case['kinds'])
    return _case(arg)[1]
