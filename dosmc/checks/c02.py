"""C02: any history of operations is equivalent to a key->bytes map.  Engine E1 (seqx).

Enumerated: all histories over the core alphabet A0 plus at most `max_variants` operations of the variant alphabet
A1, up to the depth bound, from every root state, merged by canonical state.  Oracle: the view battery through a
fresh handle and through the acting handle against the dict model, on every distinct canonical state; return
values and expected exceptions on every transition.
"""
from disk_objectstore import Container

from ..seqx import SeqSpec, explore
from ..views import battery
from ..world import core_alphabet, variant_alphabet

LEVEL = 'model_checking'

ROOT_PREFIXES = {
    'empty': [],
    # all loose
    'all-loose': [('add', 0), ('add', 1), ('add', 2), ('add', 3)],
    # all packed over two packs, one compressed object
    'all-packed': [('topack', (1, 2), False, False, True), ('topack', (3,), True, False, True), ('topack', (0,), False, False, True)],
    # mixed, with holes (a deleted packed object leaves unreferenced bytes; a duplicate append without no_holes too)
    'mixed-holes': [('topack', (1, 2), False, False, True), ('add', 3), ('add', 1), ('delete', (2,)),
                    ('topack', (1,), False, False, True)],
}


class Spec(SeqSpec):
    prop = 'C02'

    def __init__(self, tier):
        self.tier = tier
        if tier == 'quick':
            self.depth = 3
            self.max_variants = 1
            self._roots = [('empty', {}, ROOT_PREFIXES['empty'])]
            self._roots2 = [('mixed-holes', {}, ROOT_PREFIXES['mixed-holes'])]
        else:
            # thorough: depth 4 with one variant operation from the empty container; depth 3 with two variant operations from
            # every root (non-initial starts, other hash type / flat loose folder / one big pack)
            self.depth = 4
            self.max_variants = 1
            shallow = {'depth': 3, 'max_variants': 2}
            self._roots = [('empty', {}, [])]
            self._roots += [(n + '-d3v2', {}, p, shallow) for n, p in ROOT_PREFIXES.items()]
            self._roots += [('empty-sha1-p0-big-d3v2', {'hash_type': 'sha1', 'loose_prefix_len': 0, 'pack_size_target': 4 * 1024 ** 3}, [], shallow)]

    def roots(self):
        return self._roots

    def core_ops(self, root_name):
        return core_alphabet()

    def variant_ops(self, root_name):
        return variant_alphabet()

    def state_check(self, world, raw, hist):
        probs = []
        fresh = Container(world.root)
        try:
            probs += battery(fresh, world.model, raw, tag='fresh handle: ')
        finally:
            fresh.close()
        probs += battery(world.h, world.model, raw, tag='acting handle: ')
        return probs


def run(tier, report):
    spec = Spec(tier)
    report.assumptions += [
        'contents are drawn from a 4-element universe (empty, 12 x A, 16 incompressible bytes, 27 periodic bytes); content shape is covered by C01',
        'histories longer than the depth bound, or with more variant-parameter operations than the deviation bound, are not explored',
        'SQLite, zlib, hashlib and the file system are trusted',
    ]
    report.coverage['rule'] = ('BFS over operation histories on the real library from each root; a state is distinct by its canonical '
                               'form (loose keys+bytes, index rows, pack bytes, handle state); every distinct state gets the full view '
                               'battery through a fresh and the acting handle')
    explore(spec, report)
    if tier != 'quick' and not report.violations:
        # the same search with the internal batch-size thresholds lowered (different lookup strategies on the same states)
        from ..report import Report
        spec3 = Spec(tier)
        spec3.depth = 3
        spec3.max_variants = 1
        spec3._roots = [('empty-lowered-thresholds', {}, []), ('mixed-holes-lowered-thresholds', {}, ROOT_PREFIXES['mixed-holes'])]
        spec3.thresholds = (1, 3)
        spec3.listdir_order = 'reversed'     # os.listdir answers in reverse-sorted order in this pass (environment answer)
        sub = Report('C02', tier, LEVEL)
        explore(spec3, sub)
        report.violations += sub.violations
        for k in ('states', 'transitions', 'traces_validated_against_impl', 'states_checked'):
            report.coverage[k] += sub.coverage[k]
        report.coverage['lowered_threshold_pass'] = sub.coverage['per_root']
        report.coverage['exhaustive'] = report.coverage['exhaustive'] and sub.coverage['exhaustive']
    if tier == 'quick' and not report.violations:
        # second root (non-initial start) at a smaller depth
        spec2 = Spec('quick')
        spec2.depth = 2
        spec2._roots = spec2._roots2
        spec2.thresholds = (1, 3)       # multi-chunk IN queries / sorted full scan on 2-4 keys
        spec2.listdir_order = 'reversed'     # environment answer: os.listdir lists the loose / packs folders in reverse-sorted order
        from ..report import Report
        sub = Report('C02', tier, LEVEL)
        explore(spec2, sub)
        report.violations += sub.violations
        for k in ('states', 'transitions', 'traces_validated_against_impl', 'states_checked'):
            report.coverage[k] += sub.coverage[k]
        report.coverage['per_root'].update(sub.coverage['per_root'])
        report.coverage['exhaustive'] = report.coverage['exhaustive'] and sub.coverage['exhaustive']


def all_roots():
    """Every root name used by either tier of C02/C03/C12 (for replay)."""
    out = []
    big = {'hash_type': 'sha1', 'loose_prefix_len': 0, 'pack_size_target': 4 * 1024 ** 3}
    for n, p in ROOT_PREFIXES.items():
        for suffix in ('', '-d3v2', '-lowered-thresholds'):
            out.append((n + suffix, {}, p))
    for suffix in ('', '-d3v2'):
        out.append(('empty-sha1-p0-big' + suffix, big, []))
    return out


def replay(case):
    from ..seqx import replay_history
    spec = Spec('thorough')
    spec._roots = all_roots()
    if 'lowered-thresholds' in case['root'] or (case['root'] == 'mixed-holes' and case.get('spec') == 'Spec'):
        spec.thresholds = (1, 3)
    spec.listdir_order = case.get('listdir_order', 'native')
    return replay_history(spec, case['root'], [_tuplify(o) for o in case['history']])


def _tuplify(o):
    return tuple(_tuplify(x) for x in o) if isinstance(o, list) else o
