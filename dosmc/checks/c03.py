"""C03: index and pack files stay mutually consistent and self-describing.  Engine E1 + raw reader.

Enumerated: the same history space as C02.  Oracle: on every distinct canonical state, the raw invariants computed with
sqlite3/zlib/hashlib only (rawread.invariants) - ranges inside existing packs, no overlap, unique keys, the (inflated)
range hashes to the key with the recorded size, the zlib stream ends exactly at offset+length, size == length when
not compressed, loose files named by their digest - and the documented recovery of *every* object the model holds.
"""
from ..rawread import invariants
from ..seqx import SeqSpec, explore
from ..world import ABSENT_IDX, core_alphabet, variant_alphabet
from .c02 import ROOT_PREFIXES, _tuplify

LEVEL = 'model_checking'


class Spec(SeqSpec):
    prop = 'C03'

    def __init__(self, tier):
        if tier == 'quick':
            self.depth = 3
            self.max_variants = 1
            self._roots = [('empty', {}, []), ]
        else:
            self.depth = 4
            self.max_variants = 1
            shallow = {'depth': 3, 'max_variants': 2}
            self._roots = [('empty', {}, [])]
            self._roots += [(n + '-d3v2', {}, p, shallow) for n, p in ROOT_PREFIXES.items()]
            self._roots += [('empty-sha1-p0-big-d3v2', {'hash_type': 'sha1', 'loose_prefix_len': 0, 'pack_size_target': 4 * 1024 ** 3}, [], shallow)]

    def roots(self):
        return self._roots

    def core_ops(self, root_name):
        return core_alphabet()

    def variant_ops(self, root_name):
        return variant_alphabet()

    def state_check(self, world, raw, hist):
        probs = list(invariants(raw))
        # recovery without the library of every object the model holds
        for k, content in world.model.mapping().items():
            got = raw.object_bytes(k)
            if got != content:
                probs.append(('manual-recovery', f'object {k[:10]} recovered without the library as '
                                                 f'{None if got is None else got[:30]!r}, expected {content[:30]!r}'))
        # every row must belong to an object of the model (no phantom entries)
        for r in raw.rows:
            if r.hashkey not in world.model.packed:
                probs.append(('phantom-row', f'index row for {r.hashkey[:10]} which the model does not hold as packed'))
        return probs


class TwoHandleSpec(Spec):
    """Sequential histories through two handles, maintenance operations included: a handle whose index snapshot was pinned by an
    earlier query acts after the other handle has written. An operation may refuse (raise); the on-disk invariants and the
    recoverability of every acknowledged object must hold after every step."""
    nhandles = 2
    with_sources = False
    tolerate_exceptions = True

    def __init__(self, tier):
        super().__init__(tier)
        self.depth = 3 if tier == 'quick' else 4
        self.max_variants = 1 if tier == 'quick' else 2
        self._roots = [('empty-2h', {}, []),
                       ('h0-packed-pinned-2h', {}, [('on', 0, ('topack', (1, 2), False, False, True)), ('on', 0, ('q', 'count'))])]

    def core_ops(self, root_name):
        ops = []
        for h in (0, 1):
            ops += [('on', h, ('q', 'count')), ('on', h, ('add', 1)), ('on', h, ('topack', (2, 3), False, False, True)),
                    ('on', h, ('pack', 'NO', False, True)), ('on', h, ('clean', False)), ('on', h, ('repack', 'KEEP'))]
        return ops

    def variant_ops(self, root_name):
        ops = []
        for h in (0, 1):
            ops += [('on', h, ('topack', (1,), True, True, False)), ('on', h, ('pack', 'YES', True, True)),
                    ('on', h, ('repack_pack', 0, 'YES')), ('on', h, ('add', 3)), ('on', h, ('loosen', 2)), ('on', h, ('delete', (1,))),
                    ('on', h, ('delete', (2, 3))), ('on', h, ('delete', (ABSENT_IDX,))), ('on', h, ('reopen',))]
        return ops

    def enabled(self, hist, op):
        # delete_objects is documented as an operation to run while no other process accesses the container: after a deletion
        # through one handle, the other handle must be reopened before it is used again (queries through other handles are not
        # part of this pass at all - C08 covers what they may assume)
        stale = set()
        for o in hist:
            h, inner = o[1], o[2]
            if inner[0] == 'delete':
                stale.add(1 - h)
            elif inner[0] == 'reopen':
                stale.discard(h)
        if op[1] in stale and op[2][0] != 'reopen':
            return False
        if op[2][0] == 'reopen' and op[1] not in stale:
            return False
        return True

    def state_check(self, world, raw, hist):
        probs = list(invariants(raw))
        for k, content in world.model.mapping().items():
            if k in world.uncertain:
                continue        # a deletion of this key raised half-way: it may or may not exist
            if raw.object_bytes(k) != content:
                probs.append(('manual-recovery', f'acknowledged object {k[:10]} can no longer be recovered from disk'))
        for k in world.deleted_ok - world.model.present() - world.uncertain:
            if raw.object_bytes(k) is not None:
                probs.append(('deleted-still-present', f'object {k[:10]} whose deletion returned normally is still stored'))
        return probs


def run(tier, report):
    spec = Spec(tier)
    report.assumptions += [
        'same history space and bounds as C02',
        'the sqlite3 / zlib-flate executables of the documented recovery script are replaced by the stdlib sqlite3 and zlib modules',
    ]
    report.coverage['rule'] = ('BFS over operation histories (as C02); every distinct canonical on-disk state is read with '
                               'sqlite3 + byte slices + zlib only and checked against the raw invariants and the dict model')
    explore(spec, report)
    if tier == 'quick' and not report.violations:
        from ..report import Report
        spec2 = Spec('quick')
        spec2.depth = 2
        spec2._roots = [('mixed-holes', {}, ROOT_PREFIXES['mixed-holes']), ('all-packed', {}, ROOT_PREFIXES['all-packed'])]
        spec2.listdir_order = 'reversed'     # environment answer: os.listdir lists the loose / packs folders in reverse-sorted order
        sub = Report('C03', tier, LEVEL)
        explore(spec2, sub)
        report.violations += sub.violations
        for k in ('states', 'transitions', 'traces_validated_against_impl', 'states_checked'):
            report.coverage[k] += sub.coverage[k]
        report.coverage['per_root'].update(sub.coverage['per_root'])
        report.coverage['exhaustive'] = report.coverage['exhaustive'] and sub.coverage['exhaustive']
    if not report.violations:
        from ..report import Report
        sub = Report('C03', tier, LEVEL)
        explore(TwoHandleSpec(tier), sub)
        report.violations += sub.violations
        for k in ('states', 'transitions', 'traces_validated_against_impl', 'states_checked'):
            report.coverage[k] += sub.coverage[k]
        report.coverage['per_root'].update(sub.coverage['per_root'])
        report.coverage['exhaustive'] = report.coverage['exhaustive'] and sub.coverage['exhaustive']


def replay(case):
    from ..seqx import replay_history
    spec = TwoHandleSpec('thorough') if str(case.get('root', '')).endswith('-2h') else Spec('thorough')
    if not str(case.get('root', '')).endswith('-2h'):
        from .c02 import all_roots
        spec._roots = all_roots()
    spec.listdir_order = case.get('listdir_order', 'native')
    return replay_history(spec, case['root'], [_tuplify(o) for o in case['history']])
