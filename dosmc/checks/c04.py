"""C04: readers and loose writers are never disturbed by a concurrent packer.  Engine E2 (sched).

Enumerated: for every harness of the family below (writers x readers x one packer, each actor a real thread with its
own Container handle), all interleavings at the granularity of the visible interposed file-system calls and SQL
statements, up to the stated pre-emption bound (iterative context bounding).
Oracle: per execution, from the total order of observation records: an object acknowledged (pre-existing, or whose
add_object returned) before a reader call started must be reported present with exactly its bytes by that call; an
object added concurrently may be absent or complete, never partial; no reader or writer raises; writes return the
hashlib key; after all actors finish a fresh handle reads every acknowledged object, validate() is clean and the raw
invariants hold.
"""
import os

from .. import iolayer
from ..common import H, fresh_dir, rmtree
from ..rawread import RawState, invariants
from ..report import Violation
from ..sched import Harness, explore

from disk_objectstore import Container, CompressMode
from disk_objectstore.container import ObjectType

LEVEL = 'model_checking'

X = b'abc-loose-object'
X2 = b'second-loose-object!!'
Y = b'packed-plain'
Z = b'compressed-packed-object-' * 4
N = b'newly-added'
KX, KX2, KY, KZ, KN = (H(b) for b in (X, X2, Y, Z, N))
CONTENT = {KX: X, KX2: X2, KY: Y, KZ: Z, KN: N}
PRE = {KX, KX2, KY, KZ}


class Ctx:
    pass


class PackHarness(Harness):
    def __init__(self, readers=(), writer=False, per_pack=False, compress='NO', cache=False, target=20, do_fsync=True, writer2=False):
        self.readers = list(readers)       # list of (kind, pinned)
        self.writer = writer
        self.per_pack = per_pack
        self.compress = compress
        self.cache = cache
        self.target = target
        self.do_fsync = do_fsync
        self.writer2 = writer2
        self.name = ('W|' if writer else '') + ('W2|' if writer2 else '') + '|'.join(f'R{k}{"*" if p else ""}' for k, p in readers) + \
            f'|P(per_pack={int(per_pack)},{compress}{",cache" if cache else ""}{"" if do_fsync else ",nofsync"})'

    def setup(self):
        ctx = Ctx()
        ctx.dir = fresh_dir('c04')
        ctx.root = os.path.join(ctx.dir, 'c')
        c = Container(ctx.root)
        c.init_container(pack_size_target=self.target)
        c.add_objects_to_pack([Y])
        c.add_objects_to_pack([Z], compress=True)
        c.add_object(X)
        c.add_object(X2)
        if self.cache:
            c.loosen_object(KZ)
        c.close()
        ctx.obs = []
        ctx.pinned = []
        for kind, pinned in self.readers:
            if pinned:
                h = Container(ctx.root)
                h.has_objects([KX, KY])          # pins the handle's index snapshot before the concurrent phase
                ctx.pinned.append(h)
            else:
                ctx.pinned.append(None)
        ctx.outcome = None
        return ctx

    def teardown(self, ctx):
        for h in ctx.pinned:
            if h is not None:
                h.close()
        rmtree(ctx.dir)

    def actors(self, ctx, sched):
        acts = []
        if self.writer:
            acts.append(('W', lambda: self._writer(ctx, sched)))
        if self.writer2:
            # a second writer storing the same new content and a duplicate of another loose object at the same time
            acts.append(('W2', lambda: self._writer(ctx, sched, (N, X2))))
        for i, (kind, pinned) in enumerate(self.readers):
            acts.append((f'R{i}', (lambda i=i, kind=kind: self._reader(ctx, sched, i, kind))))
        acts.append(('P', lambda: self._packer(ctx, sched)))
        return acts

    def _packer(self, ctx, sched):
        h = Container(ctx.root)
        try:
            mode = {'NO': CompressMode.NO, 'YES': CompressMode.YES, 'AUTO': CompressMode.AUTO}[self.compress]
            h.pack_all_loose(compress=mode, clean_loose_per_pack=self.per_pack, do_fsync=self.do_fsync)
            h.clean_storage()
        finally:
            h.close()

    def _writer(self, ctx, sched, contents=(N, X)):
        h = Container(ctx.root)
        try:
            for content in contents:
                k = h.add_object(content)
                ctx.obs.append((sched.tick(), 'ack', H(content), k))
        finally:
            h.close()

    def _reader(self, ctx, sched, i, kind):
        h = ctx.pinned[i] or Container(ctx.root)
        keys = [KX, KX2, KY, KZ, KN]
        try:
            t0 = sched.tick()
            try:
                if kind == 'single':
                    got = {KX: h.get_object_content(KX), KX2: h.get_object_content(KX2)}
                elif kind == 'bulk':
                    got = h.get_objects_content(keys)
                elif kind == 'bulkall':
                    got = h.get_objects_content(keys, skip_if_missing=False)
                    got = {k: v for k, v in got.items() if v is not None}
                elif kind == 'has':
                    got = {k: CONTENT[k] for k, b in zip(keys, h.has_objects(keys)) if b}
                elif kind == 'meta':
                    got = {}
                    types = []
                    for k, meta in h.get_objects_meta(keys):
                        got[k] = CONTENT[k] if meta.size == len(CONTENT[k]) else b'?size=%d' % (meta.size or -1)
                        types.append((k[:4], meta.type.value))
                    ctx.outcome = tuple(sorted(types))
                elif kind == 'lazy':
                    got = {}
                    with h.get_objects_stream_and_meta(keys) as trip:
                        for k, stream, meta in trip:
                            a = stream.read(3)
                            sched.yield_point('reader-between-chunks')
                            got[k] = a + stream.read()
                            if meta.size != len(got[k]):
                                got[k] = b'?meta-size'
                elif kind == 'seek':
                    with h.get_object_stream(KZ) as stream:
                        a = stream.read(2)
                        stream.seek(-1, 1)
                        b = stream.read()
                    got = {KZ: a + b[1:]}
                    keys = [KZ]
                elif kind == 'list':
                    listed = list(h.list_all_objects())
                    got = {k: CONTENT.get(k, b'?') for k in listed}
                    if len(listed) != len(set(listed)):
                        got['dup'] = b'listed twice'
                else:
                    raise ValueError(kind)
                ctx.obs.append((t0, 'read', i, kind, tuple(keys), got, None))
            except Exception as exc:  # pylint: disable=broad-except
                ctx.obs.append((t0, 'read', i, kind, tuple(keys), None, f'{type(exc).__name__}: {exc}'))
        finally:
            if ctx.pinned[i] is None:
                h.close()

    def check(self, ctx, sched):
        viol = []
        acks = {}
        # which code paths did the readers take in this schedule?  (evidence against vacuity: pack hit / loose hit / fallback re-query)
        sig = []
        for name in sched.order:
            if not name.startswith('R'):
                continue
            evs = [t.split(':', 1)[1] for t in sched.trace if t.startswith(name + ':')]
            sig.append((name,
                        'loose-hit' if any(e.startswith('f.read:loose/') for e in evs) else '',
                        'pack-hit' if any(e.startswith('f.read:packs/') for e in evs) else '',
                        'requery' if sum(1 for e in evs if e.startswith('sql.read') and 'SELECT' in e) > 1 else ''))
        if sig and ctx.outcome is None:
            ctx.outcome = tuple(sig)
        for rec in ctx.obs:
            if rec[1] == 'ack':
                t, _, want, got = rec
                if want != got:
                    viol.append(('writer-key', f'add_object returned {got}, expected {want}'))
                acks.setdefault(want, t)
        for rec in ctx.obs:
            if rec[1] != 'read':
                continue
            t0, _, i, kind, keys, got, exc = rec
            if exc is not None:
                viol.append(('reader-exception', f'reader {kind} raised {exc}'))
                continue
            must = {k for k in keys if k in PRE or (k in acks and acks[k] < t0)}
            if kind == 'single':
                must &= {KX, KX2}
            for k in keys:
                if k in got:
                    if got[k] != CONTENT[k]:
                        viol.append(('reader-wrong-bytes', f'reader {kind}: {k[:8]} read as {got[k][:30]!r}'))
                elif k in must:
                    viol.append(('reader-missing', f'reader {kind}{"(pinned handle)" if ctx.pinned[i] else ""}: acknowledged '
                                                   f'object {k[:8]} reported missing'))
            extra = set(got) - set(CONTENT)
            if extra:
                viol.append(('reader-extra', f'reader {kind}: unexpected keys {sorted(map(str, extra))}'))
        # final state
        expect = set(PRE) | set(acks)
        f = Container(ctx.root)
        try:
            got = f.get_objects_content(sorted(expect))
            for k in expect:
                if got.get(k) != CONTENT[k]:
                    viol.append(('final-content', f'after all actors finished {k[:8]} reads as {got.get(k)!r}'))
            if not f.validate().is_valid():
                viol.append(('final-validate', f'validate() reports {f.validate()}'))
        except Exception as exc:  # pylint: disable=broad-except
            viol.append(('final-exception', f'{type(exc).__name__}: {exc}'))
        finally:
            f.close()
        for clause, detail in invariants(RawState(ctx.root)):
            viol.append(('final-raw-' + clause, detail))
        return viol


def family(tier):
    """(harness, bound) pairs."""
    fam = []
    q = tier == 'quick'
    b2 = 1 if q else 2          # bound for 2-actor harnesses
    b3 = 1 if q else 2          # bound for 3-actor harnesses
    kinds = ['single', 'bulk', 'bulkall', 'has', 'meta', 'lazy', 'seek', 'list']
    for idx, kind in enumerate(kinds):
        for pinned in (False, True):
            for per_pack in (False, True):
                if q and (per_pack != (idx % 2 == 0)) and not (kind in ('bulk', 'has') and pinned):
                    continue
                fam.append((PackHarness(readers=[(kind, pinned)], per_pack=per_pack,
                                        compress='YES' if (kind == 'seek' or per_pack) else 'NO',
                                        cache=(kind == 'seek' and pinned)), b2 + (1 if q and kind in ('single', 'seek') and not pinned else 0)))
    fam.append((PackHarness(readers=[('bulk', False)], per_pack=True, compress='NO', do_fsync=False), b2))
    fam.append((PackHarness(readers=[('single', False)], per_pack=False, compress='YES', do_fsync=False), b2))
    fam.append((PackHarness(writer=True, per_pack=False), b2 + (1 if q else 0)))
    fam.append((PackHarness(writer=True, per_pack=True, compress='YES'), b2))
    fam.append((PackHarness(readers=[('bulk', False)], writer=True, per_pack=True), b3))
    fam.append((PackHarness(writer=True, writer2=True, per_pack=True), b3))
    fam.append((PackHarness(readers=[('single', False), ('has', True)], per_pack=False), b3))
    if not q:
        fam.append((PackHarness(readers=[('lazy', True)], writer=True, per_pack=True, compress='YES'), b3))
        fam.append((PackHarness(readers=[('meta', False), ('seek', False)], per_pack=True, compress='YES'), b3))
    return fam


def run(tier, report):
    iolayer.install()
    total = 0
    per = {}
    all_outcomes = set()
    samples = []
    capped_any = False
    max_exec = 4000 if tier == 'quick' else 200000
    fam = family(tier)
    from ..sched import register
    from .. import common
    for h, _ in fam:
        register(h)              # workers are forked afterwards and inherit the registry
    common.shutdown_pool()
    for h, bound in fam:
        r = explore(h, bound, max_exec=max_exec)
        total += r['executions']
        per[h.name] = {'bound': bound, 'executions': r['executions'], 'max_points': r['max_points'],
                       'distinct_outcomes': len(r['outcomes']), 'visible_events_per_actor': r['events'], 'capped': r['capped']}
        capped_any = capped_any or r['capped']
        all_outcomes |= {(h.name, o) for o in r['outcomes']}
        seen = set()
        for prefix, trace, clause, detail in r['violations']:
            if clause in seen:
                continue
            seen.add(clause)
            fp = {'engine': 'sched', 'clause': clause, 'harness': h.name}
            report.add_violation(Violation('C04', 'sched', clause, {'harness': _spec(h), 'choices': prefix, 'trace': trace},
                                           f'{h.name}: schedule {prefix}: {detail}', fp))
        if len(samples) < 3:
            samples.append({'harness': h.name, 'bound': bound, 'executions': r['executions'], 'schedule_points': r['max_points']})
        from ..common import log
        log(f'C04 {h.name}: bound {bound}: {r["executions"]} schedules, max {r["max_points"]} points, '
            f'{len(r["outcomes"])} outcomes, violations {len(r["violations"])}')
    cov = report.coverage
    cov['states'] = total
    cov['transitions'] = sum(p['executions'] * p['max_points'] for p in per.values())
    cov['traces_validated_against_impl'] = total
    cov['schedules_executed'] = total
    cov['harnesses'] = per
    cov['distinct_outcomes'] = len(all_outcomes)
    cov['exhaustive'] = not capped_any
    cov['samples'] = samples
    cov['rule'] = ('iterative context bounding: every schedule of each harness with at most `bound` pre-emptions, scheduling points at '
                   'every visible interposed file-system call / SQL statement; states = complete schedules executed; transitions = '
                   'upper bound of scheduling decisions taken')
    report.assumptions += ['actors are threads of one process standing in for processes; the library shares only the directory and SQLite between handles',
                           'at most 3 concurrent actors; one packer (concurrent packers are excluded by the documentation)',
                           'SQLite-internal steps (checkpoints) are not scheduling points']


def _spec(h):
    return {'readers': h.readers, 'writer': h.writer, 'per_pack': h.per_pack, 'compress': h.compress, 'cache': h.cache, 'target': h.target,
            'do_fsync': h.do_fsync, 'writer2': h.writer2}


def replay(case):
    from ..sched import execute
    iolayer.install()
    s = case['harness']
    h = PackHarness(readers=[tuple(r) for r in s['readers']], writer=s['writer'], per_pack=s['per_pack'], compress=s['compress'],
                    cache=s['cache'], target=s['target'], do_fsync=s.get('do_fsync', True), writer2=s.get('writer2', False))
    r1 = execute(h, case['choices'])
    r2 = execute(h, case['choices'])
    if [v[0] for v in r1['viol']] != [v[0] for v in r2['viol']]:
        return [('nondeterministic-replay', str(r1['viol']), str(r2['viol']))]
    return r1['viol']
