"""C05: a process crash at any point never loses or tears an object.  Engine E3 (crashx).

Enumerated: for every scenario (operation variant x pre-state), *every* boundary between two consecutive mutating I/O
calls of the operation (plus the point after it returned) -> the kill image (OS-visible bytes only).
Oracle: raw reader (every index row yields its object, every loose file hashes to its name, nothing stored before
is lost) and a fresh handle (right bytes / NotExistent only where allowed / loud failure only while the index
references the temporary repack pack).
"""
from ..common import ExecTimeout, pmap, rmtree
from ..crashx import check_image, record, scenarios
from ..report import Violation
from ..world import op_fingerprint

LEVEL = 'fault_enumeration'
PROP = 'C05'
WHICH = 'k'          # kill images


def _task(sc):
    import os
    out = {'name': sc.name, 'boundaries': 0, 'labels': [], 'viol': [], 'events': 0, 'op_ok': True}
    try:
        w, imgdir, labels, info = record(sc)
    except ExecTimeout as exc:
        out['viol'].append((-1, 'hang', 'hang', f'operation did not finish: {exc}'))
        return out
    except RuntimeError as exc:
        # a public operation of the scenario's setup failed on a fresh container: report it, do not abort the run
        out['viol'].append((-1, 'setup', 'setup-failed', str(exc)))
        return out
    try:
        out['boundaries'] = len(labels)
        out['labels'] = labels
        out['events'] = len(info['events'])
        res = info['res']
        if res is not None and not res.ok:
            out['viol'].append((len(labels) - 1, '<returned>', res.clause, res.detail))
        for k, label in enumerate(labels):
            for clause, detail in check_image(os.path.join(imgdir, f'{WHICH}{k}'), info):
                out['viol'].append((k, label, clause, detail))
    finally:
        w.close()
        rmtree(imgdir)
    if WHICH == 'k':
        _torn(sc, out)
    return out


def _torn(sc, out):
    """Second recording of the same scenario: the kill lands inside a write, which reaches the file only in part."""
    import os
    try:
        w, imgdir, labels, info = record(sc, torn=True)
    except (ExecTimeout, RuntimeError) as exc:
        out['viol'].append((-1, 'torn', 'torn-recording-failed', str(exc)))
        return
    try:
        out['torn'] = len(labels)
        out['torn_labels'] = labels
        for k, label in enumerate(labels):
            for clause, detail in check_image(os.path.join(imgdir, f't{k}'), info):
                out['viol'].append((k, label, 'torn-' + clause, detail))
    finally:
        w.close()
        rmtree(imgdir)


def run_generic(tier, report, prop, which, filt=None):
    global WHICH
    WHICH = which
    scs = [s for s in scenarios(tier) if 'faults-only' not in s.tags and (filt is None or filt(s))]
    results = pmap(_task, scs)
    total = torn_total = 0
    distinct = set()
    samples = []
    per = {}
    for sc, out in zip(scs, results):
        total += out['boundaries'] + out.get('torn', 0)
        torn_total += out.get('torn', 0)
        per[sc.name] = out['boundaries']
        for lab in out['labels'] + out.get('torn_labels', []):
            distinct.add((sc.name.split('@')[0], lab))
        if len(samples) < 3 and out['labels']:
            samples.append({'scenario': sc.key(), 'boundaries': out['labels']})
        seen_clause = set()
        for k, label, clause, detail in out['viol']:
            if (clause,) in seen_clause:
                continue
            seen_clause.add((clause,))
            fp = {'engine': 'crashx', 'image': which, 'clause': clause, 'scenario': sc.name.split('@')[0]}
            fp.update(op_fingerprint(sc.op))
            report.add_violation(Violation(prop, 'crashx', clause,
                                           {'scenario': sc.key(), 'boundary_index': k, 'boundary': label, 'image': which},
                                           f'{sc.name}: image before call #{k} [{label}]: {detail}', fp))
    cov = report.coverage
    cov['evaluations'] = total
    cov['distinct_nontrivial'] = len(distinct)
    cov['scenarios'] = len(scs)
    if which == 'k':
        cov['torn_write_images'] = torn_total
    cov['boundaries_per_scenario'] = per
    cov['exhaustive'] = True
    cov['rule'] = ('every boundary before a mutating I/O call (open-for-write, write, flush, close, truncate, fsync, rename/replace/'
                   'link/unlink/mkdir, SQL write, commit) of every scenario, plus the point after return; for kill images also every '
                   'write of >= 2 bytes to a pack or loose/sandbox file cut short after 1, half and all-but-one of its bytes (with '
                   'everything written before it drained to the file); distinct = distinct '
                   '(operation variant, call label) pairs; each image is checked raw and through a fresh handle')
    cov['samples'] = samples


def run(tier, report):
    report.assumptions += [
        'a kill inside a write of the library is enumerated at three cut points per write (1, half, all but one byte); '
        'kills inside SQLite are not enumerated (SQLite recovery is trusted)',
        'images are taken at Python call boundaries of the interposed calls; user-space buffers are lost',
    ]
    run_generic(tier, report, PROP, 'k')


def replay(case):
    from ..crashx import Scenario
    global WHICH
    WHICH = case.get('image', 'k')
    s = case['scenario']
    sc = Scenario(s['name'], [_t(o) for o in s['setup']], _t(s['op']), s.get('config'), universe=None, thresholds=tuple(s['thresholds']) if s.get('thresholds') else None)
    from ..crashx import universe5
    sc.universe = universe5()
    out = _task(sc)
    return out['viol']


def _t(o):
    return tuple(_t(x) for x in o) if isinstance(o, list) else o
