"""C06: publish only after durable; remove only after the replacement is durable.  Engine E3 (crashx).

Enumerated: the same boundaries as C05 (scenarios with the default fsync settings only); each boundary is turned into
the adversarial power-loss image: every regular non-SQLite file holds only the bytes it had at its last fsync (none
if never synced; content present when the operation starts counts as synced; hard links / renames carry the inode's
sync state), while directory operations and committed SQLite transactions survive.
Oracle: as C05 on the power-loss image.
"""
from .c05 import run_generic, _task, _t  # noqa: F401

LEVEL = 'fault_enumeration'


def run(tier, report):
    report.assumptions += [
        'storage model of the property statement: unsynced file data may vanish, directory operations and committed SQLite '
        'transactions survive; reordering between directory operations is not modelled',
        'macOS F_FULLFSYNC path cannot be executed here',
    ]
    run_generic(tier, report, 'C06', 'p', filt=lambda s: 'nofsync' not in s.tags)


def replay(case):
    from . import c05
    case = dict(case)
    case['image'] = 'p'
    return c05.replay(case)
