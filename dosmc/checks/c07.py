"""C07: every returned stream behaves like an in-memory file over the object.  Engine E4 (streamx).

Enumerated: for every (object size, storage form, acquisition path): all programs over the read/seek/tell alphabet to
*closure* of the canonical product state graph (implementation stream state x io.BytesIO position), i.e. programs of
unbounded length over that alphabet, plus all programs up to a depth bound without state merging (guards against a
canonicalisation mistake).  The large object (> 512 KiB decompresser chunk, > 256 KiB seek chunk) is explored
depth-bounded with alphabet values around the internal chunk sizes.
Oracle: in-range operations equal io.BytesIO exactly (bytes, seek/tell return values); out-of-range seeks are rejected
with the position unchanged, clamped, or as BytesIO; no negative position; every read returns content[p:p+k].
"""
from ..common import pmap
from ..report import Violation
from ..streamx import ACQ, FORMS, Fixture, alphabet, explore_closure, explore_depth, run_program

LEVEL = 'model_checking'

SMALL = (0, 1, 5, 60)
BIG = 600 * 1024


def _task(arg):
    n, form, acq, compressible, mode, depth = arg
    fx = Fixture(n, form, compressible)
    try:
        if mode == 'closure':
            ops = alphabet(n)
            states, trans, viols, closed = explore_closure(fx, acq, ops)
            return {'states': states, 'transitions': trans, 'programs': trans, 'viols': viols, 'closed': closed, 'ops': len(ops)}
        ops = alphabet(n, big=n > 4096)
        if n > 4096:
            # keep the depth-bounded space of the large object tractable: reads of 0/1/2/7 add nothing there
            ops = [o for o in ops if not (o[0] == 'read' and o[1] in (0, 2, 7))]
        total = 0
        viols = []
        for d in range(1, depth + 1):
            cnt, vs = explore_depth(fx, acq, ops, d)
            total += cnt
            viols += vs
            if viols:
                break
        return {'states': 0, 'transitions': 0, 'programs': total, 'viols': viols, 'closed': True, 'ops': len(ops)}
    finally:
        fx.close()


def run(tier, report):
    tasks = []
    small = (0, 1, 5, 24) if tier == 'quick' else (0, 1, 5, 24, 60)
    for n in small:
        for form in FORMS:
            for acq in ACQ:
                tasks.append((n, form, acq, False, 'closure', 0))
                tasks.append((n, form, acq, False, 'depth', 2 if tier == 'quick' else 3))
    # a compressible object (long zlib back-references, large decompression ratio)
    for form in ('compressed', 'compressed+cache'):
        tasks.append((40 if tier == 'quick' else 60, form, 'single', True, 'closure', 0))
    big_depth = 1 if tier == 'quick' else 2
    for form in FORMS:
        for acq in (('single',) if tier == 'quick' else ACQ):
            tasks.append((BIG, form, acq, False, 'depth', big_depth))
            if tier != 'quick':
                tasks.append((BIG, form, acq, True, 'depth', big_depth))
    # in the quick tier the large object still gets the depth-2 programs that straddle the chunk sizes: read then seek/read
    results = pmap(_task, tasks, progress='C07' if tier != 'quick' else None)
    states = transitions = programs = 0
    closed_all = True
    samples = []
    per = {}
    for t, r in zip(tasks, results):
        states += r['states']
        transitions += r['transitions']
        programs += r['programs']
        closed_all = closed_all and r['closed']
        per[f'n={t[0]} form={t[1]} acq={t[2]} mode={t[4]}{"-compressible" if t[3] else ""}'] = \
            {'states': r['states'], 'programs': r['programs'], 'closed': r['closed'], 'alphabet': r['ops']}
        seen = set()
        for prog, (i, op, detail) in r['viols']:
            clause = detail.split(' ')[0] + '-' + ('in-range' if 'in-memory' in detail or 'expected' in detail else 'out-of-range')
            key = (op[0], op[-1] if op[0] == 'seek' else None, clause)
            if key in seen:
                continue
            seen.add(key)
            fp = {'engine': 'streamx', 'form': t[1], 'op': op[0], 'whence': op[2] if op[0] == 'seek' else None, 'clause': clause}
            report.add_violation(Violation('C07', 'streamx', clause,
                                           {'size': t[0], 'form': t[1], 'acq': t[2], 'compressible': t[3], 'program': prog},
                                           f'size {t[0]} form {t[1]} via {t[2]}: program {prog}: step {i} {op}: {detail}', fp))
    if big_depth == 1:
        # depth-2 straddling programs for the large object (complete for this sub-alphabet)
        extra = pmap(_big_pairs, [(form,) for form in FORMS])
        for (form,), (cnt, viols) in zip(FORMS_T, extra):
            programs += cnt
            for prog, (i, op, detail) in viols[:3]:
                fp = {'engine': 'streamx', 'form': form, 'op': op[0], 'whence': op[2] if op[0] == 'seek' else None, 'clause': 'big-pair'}
                report.add_violation(Violation('C07', 'streamx', 'big-pair', {'size': BIG, 'form': form, 'acq': 'single', 'compressible': False, 'program': prog},
                                               f'size {BIG} form {form}: program {prog}: step {i} {op}: {detail}', fp))
    cov = report.coverage
    cov['states'] = max(states, 1)
    cov['transitions'] = max(transitions, 1)
    cov['traces_validated_against_impl'] = programs
    cov['programs_executed'] = programs
    cov['closure_reached_everywhere'] = closed_all
    cov['exhaustive'] = closed_all
    cov['per_case'] = per
    cov['samples'] = samples or [{'size': 60, 'form': 'compressed', 'acq': 'single',
                                  'program': [['read', 7], ['seek', -1, 1], ['read', None], ['seek', -7, 2], ['tell']]}]
    cov['rule'] = ('BFS over stream programs to closure of the canonical (implementation state, reference position) graph per '
                   '(size, form, acquisition); plus all programs up to the depth bound without merging')
    report.assumptions += ['operations outside the alphabet (readinto, iteration, whence > 2) are not covered',
                           'object sizes 0, 1, 5, 24 (60 in the thorough tier) and 600 KiB; one incompressible and one compressible content per size']


FORMS_T = [(f,) for f in FORMS]


def _big_pairs(arg):
    (form,) = arg
    fx = Fixture(BIG, form, False)
    try:
        b1, b2 = 262144, 524288
        firsts = [('read', b2 - 1), ('read', b2), ('read', b2 + 1), ('read', b1 + 1), ('seek', b2 + 1, 0), ('seek', b1 - 1, 0), ('read', 7)]
        seconds = [('read', 5), ('read', b1), ('read', None), ('seek', -1, 1), ('seek', -b1, 1), ('seek', 0, 0), ('seek', 3, 0), ('seek', -5, 2),
                   ('seek', b2, 0), ('tell',)]
        thirds = [('read', 9), ('tell',)]
        cnt = 0
        viols = []
        for a in firsts:
            for b in seconds:
                for c in thirds:
                    cnt += 1
                    v, _ = run_program(fx, 'single', [a, b, c], want_canon=False)
                    if v:
                        viols.append(([a, b, c], v))
        return cnt, viols
    finally:
        fx.close()


def replay(case):
    fx = Fixture(case['size'], case['form'], case.get('compressible', False))
    try:
        prog = [tuple(o) for o in case['program']]
        v, _ = run_program(fx, case['acq'], prog, want_canon=False)
        return [v] if v else []
    finally:
        fx.close()
