"""C08: a long-open handle sees everything acknowledged through other handles.  Engine E1 (seqx), k handles.

Enumerated: all sequential histories (up to the depth bound, merged by canonical state, which includes each handle's
pinned index snapshot) over k handles on one folder: add_object through any handle; every kind of query through any
handle as an explicit operation - a query may pin the handle's snapshot or, through the fallback, refresh it, so each
(state, handle, query kind) is executed as the *first* query in that state; pack_all_loose (with/without per-pack
cleaning and compression) and clean_storage through the packing handle (handle 0).
Oracle: every query result equals the model of all objects acknowledged so far (presence and bytes, sizes).
count_objects is executed but not judged (the property lists existence checks, reads, metadata and listings).
"""
from ..seqx import SeqSpec, explore
from ..views import battery
from .c02 import _tuplify

LEVEL = 'model_checking'

UNIVERSE2 = [b'A' * 12, b'xyz' * 9]


def _queries():
    qs = [('q', 'has'), ('q', 'bulk'), ('q', 'bulkall'), ('q', 'meta'), ('q', 'list'), ('q', 'streams'), ('q', 'seekstreams')]
    for i in (0, 1):
        qs += [('q', 'get', i), ('q', 'meta1', i), ('q', 'stream', i)]
    return qs


class Spec(SeqSpec):
    prop = 'C08'
    universe = UNIVERSE2
    with_sources = False

    def __init__(self, tier):
        self.tier = tier
        self.nhandles = 2 if tier == 'quick' else 3
        self.depth = 4 if tier == 'quick' else 5
        self.max_variants = 1 if tier == 'quick' else 2

    def roots(self):
        return [('empty', {'pack_size_target': 10}, [])]   # every object in its own pack

    def core_ops(self, root_name):
        ops = []
        for h in range(self.nhandles):
            ops.append(('on', h, ('add', 0)))
            if h > 0 or self.nhandles == 2:
                for q in _queries():
                    ops.append(('on', h, q))
        ops.append(('on', 0, ('pack', 'NO', False, True)))
        ops.append(('on', 0, ('clean', False)))
        return ops

    def variant_ops(self, root_name):
        ops = [('on', 0, ('pack', 'YES', True, True)), ('on', 0, ('pack', 'YES', False, True)), ('on', 0, ('pack', 'NO', True, True))]
        for h in range(self.nhandles):
            ops.append(('on', h, ('add', 1)))
            ops.append(('on', h, ('q', 'count')))
            ops.append(('on', h, ('reopen',)))
        if self.nhandles > 2:
            for q in _queries():
                ops.append(('on', 0, q))
        return ops

    def enabled(self, hist, op):
        # a query directly after a query through the same handle adds nothing new for the *second* query only when the first
        # already refreshed; it is still explored (cheap).  Only prune: two identical consecutive operations that are queries.
        if hist and op[2][0] == 'q' and tuple(hist[-1]) == tuple(op):
            return False
        return True

    def state_check(self, world, raw, hist):
        probs = []
        for i, h in enumerate(world.handles):
            probs += battery(h, world.model, raw, judge_counts=False, tag=f'handle {i}: ')
        return probs


def run(tier, report):
    spec = Spec(tier)
    report.assumptions += ['contents universe of 2 (both compressible, so stored length != size when packed compressed)',
                           'direct-to-pack writes / repack / delete through other handles are excluded by the property statement',
                           'histories longer than the depth bound are not explored']
    report.coverage['rule'] = ('BFS over multi-handle histories; canonical state = on-disk state + per handle (current pack id, '
                               'session state, keys visible in the pinned snapshot); queries are transitions judged individually')
    explore(spec, report)
    if not report.violations:
        # second pass: internal IN-batch size lowered to 1 so that the fallback re-query runs over several chunks; two loose
        # objects exist at the root, the reader (handle 1) pins, the packer packs+cleans, the reader asks in bulk
        from ..report import Report
        spec2 = Spec(tier)
        spec2.thresholds = (1, 9500)
        spec2.depth = 3 if tier == 'quick' else 4
        spec2.max_variants = 2
        spec2.roots = lambda: [('two-loose', {'pack_size_target': 10}, [('on', 0, ('add', 0)), ('on', 0, ('add', 1))])]
        sub = Report('C08', tier, LEVEL)
        explore(spec2, sub)
        report.violations += sub.violations
        for k in ('states', 'transitions', 'traces_validated_against_impl', 'states_checked'):
            report.coverage[k] += sub.coverage[k]
        report.coverage['per_root'].update(sub.coverage['per_root'])
        report.coverage['exhaustive'] = report.coverage['exhaustive'] and sub.coverage['exhaustive']


def replay(case):
    from ..seqx import replay_history
    spec = Spec('thorough')
    if case.get('root') == 'two-loose':
        spec.thresholds = (1, 9500)
        spec.roots = lambda: [('two-loose', {'pack_size_target': 10}, [('on', 0, ('add', 0)), ('on', 0, ('add', 1))])]
    spec.nhandles = max([o[1] for o in case['history'] if o[0] == 'on'] + [1]) + 1
    if case.get('spec_nhandles'):
        spec.nhandles = case['spec_nhandles']
    return replay_history(spec, case['root'], [_tuplify(o) for o in case['history']])
