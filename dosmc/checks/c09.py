"""C09: storing known content never creates a second copy (deduplication).  Engine E1 (seqx) with monitors.

Enumerated: histories restricted to write / pack / clean / import operations in which the same contents recur in every
position (inside one batch, across batches, across loose/packed forms) x {compress, no_holes, no_holes_read_twice},
including the empty object; plus the environment event damage(x) - the harness overwrites / truncates / extends the
loose file - which must be immediately followed by a re-add of x through each write path.
Oracle per transition: the returned key is the hashlib key; at most one index row and one loose file per key; the number
of present keys equals the number of distinct contents stored so far; for a no_holes call the unreferenced bytes of
the packs (pack file sizes minus referenced lengths) do not increase, and a call that only stores already-packed
content leaves every pack file byte-identical.  Per state: every key reads back correctly (also after damage+re-add;
the loose file is correct again when re-added through a loose path).
"""
from disk_objectstore import Container

from ..rawread import invariants
from ..seqx import SeqSpec, explore
from .c02 import _tuplify

LEVEL = 'model_checking'


def holes(raw):
    return sum(len(b) for b in raw.packs.values()) - sum(r.length for r in raw.rows)


class Spec(SeqSpec):
    prop = 'C09'

    def __init__(self, tier):
        self.tier = tier
        self.depth = 3 if tier == 'quick' else 4
        self.max_variants = 2 if tier == 'quick' else 3

    def roots(self):
        r = [('small-target', {'pack_size_target': 25}, [])]
        if self.tier != 'quick':
            r.append(('big-target-sha1', {'pack_size_target': 4 * 1024 ** 3, 'hash_type': 'sha1'}, []))
        return r

    def core_ops(self, root_name):
        ops = [('add', 0), ('add', 1), ('add', 3)]
        ops += [('topack', (0,), False, False, True), ('topack', (1,), False, False, True), ('topack', (3, 1), False, False, True)]
        ops += [('pack', 'NO', False, True), ('clean', False)]
        return ops

    def variant_ops(self, root_name):
        ops = [('adds', 1)]
        for batch in ((0,), (1,), (0, 0), (1, 0, 1), (1, 1, 3), (3, 1, 0)):
            for compress in (False, True):
                for nh, tw in ((True, True), (True, False)):
                    ops.append(('topack', batch, compress, nh, tw))
        ops.append(('topack', (1, 1, 3), True, False, True))
        ops.append(('stopack', (1, 0, 1), True, True, False, True))
        ops.append(('sotopack', 0, True, True, False))
        ops.append(('sotopack', 1, False, True, True))
        ops.append(('pack', 'YES', True, True))
        ops.append(('import', (0, 1, 3), False, 104857600, 'same'))
        ops.append(('import', (0, 1, 3, 3), True, 13, 'other'))
        ops.append(('import', (1, 3), False, 1, 'same'))
        for how in ('overwrite', 'truncate', 'extend', 'empty'):
            ops.append(('damage', 1, how))
        ops.append(('damage', 0, 'extend'))
        ops.append(('reopen',))
        return ops

    def enabled(self, hist, op):
        last = hist[-1] if hist else None
        if op[0] == 'damage':
            # only an existing loose copy can be damaged
            loose = set()
            for o in hist:
                if o[0] in ('add', 'adds'):
                    loose.add(o[1])
                elif o[0] == 'clean' or (o[0] == 'pack' and o[2]):
                    loose.clear()      # conservative: packed objects lose their loose copy
            return op[1] in loose and not (last and last[0] == 'damage')
        if last and last[0] == 'damage':
            # the damage event must be immediately followed by a re-add of that content through some write path
            x = last[1]
            if op[0] in ('add', 'adds', 'sotopack'):
                return op[1] == x
            if op[0] in ('topack', 'stopack'):
                return x in op[1]
            if op[0] == 'import':
                # a same-hash import skips keys the destination holds (C14: "not written again at all"), so it is not a re-add
                return x in op[1] and op[4] == 'other'
            return False
        return True

    def step_check(self, world, before, after, res, hist, model_before):
        probs = []
        op = res.op
        m = world.model
        if op[0] == 'damage':
            return probs
        present = after.present_keys()
        if present != m.present():
            probs.append(('object-count', f'{len(present)} keys present on disk, {len(m.present())} distinct contents stored'))
        for clause, detail in invariants(after):
            if clause == 'loose-name' and any(k[:10] in detail for k in world.damaged):
                continue
            if clause in ('unique-key', 'loose-name', 'content-digest', 'overlap'):
                probs.append((clause, detail))
        if op[0] in ('topack', 'stopack', 'sotopack') and op[3]:
            hb, ha = holes(before), holes(after)
            if ha > hb:
                probs.append(('no-holes-left-bytes', f'no_holes call left {ha - hb} unreferenced bytes in the packs (before {hb}, after {ha})'))
            batch = op[1] if op[0] != 'sotopack' else (op[1],)
            if all(m.keys[i] in model_before.packed for i in batch):
                # (a new, empty pack file may appear when the current pack is full: opening it for append creates it)
                for p, data in after.packs.items():
                    if data != before.packs.get(p, b''):
                        probs.append(('no-holes-grew', f'a no_holes call that stored only already-packed content changed pack {p} '
                                                       f'({len(before.packs.get(p, b""))} -> {len(data)} bytes)'))
        return probs

    def state_check(self, world, raw, hist):
        probs = []
        f = Container(world.root)
        try:
            ref = world.model.mapping()
            got = f.get_objects_content(list(ref))
            for k, v in ref.items():
                if k in world.damaged and k not in world.model.packed:
                    continue        # the harness has just damaged the only copy; judged after the re-add
                if got.get(k) != v:
                    probs.append(('read-back', f'{k[:8]} reads back as {got.get(k)!r}'))
                single = f.get_object_content(k)
                if single != v:
                    probs.append(('read-back', f'{k[:8]} reads back (single) as {single!r}'))
            cnt = f.count_objects()
            if len(set(raw.loose) | {r.hashkey for r in raw.rows}) != len(ref) or cnt.packed != len(world.model.packed):
                probs.append(('object-count', f'count_objects {cnt}; distinct contents stored {len(ref)}'))
            for k in ref:
                if k in raw.loose and k not in world.damaged and raw.loose[k] != ref[k]:
                    probs.append(('loose-copy', f'loose copy of {k[:8]} is wrong after it was (re-)added'))
        finally:
            f.close()
        return probs


def run(tier, report):
    spec = Spec(tier)
    report.assumptions += ['contents universe {empty, 12 x A, 27 periodic bytes}; histories bounded in depth and in number of variant operations',
                           'a damage event is always followed by a re-add of the damaged content (other continuations are outside the property)']
    report.coverage['rule'] = 'BFS over write/pack/clean/import histories with recurring contents; hole and count monitors on every transition'
    explore(spec, report)
    if not report.violations:
        # second pass WITHOUT state merging over the store / damage / re-store alphabet: merging cannot see process-level state
        # (e.g. a cache of "already verified" loose files), and the property quantifies over any number of repetitions
        ops = [('add', 1), ('adds', 1), ('topack', (1,), False, False, True), ('topack', (1,), False, True, False),
               ('import', (1,), False, 104857600, 'same'), ('pack', 'NO', False, True), ('clean', False),
               ('damage', 1, 'overwrite'), ('damage', 1, 'truncate'), ('damage', 1, 'empty')]
        from ..seqx import explore_nomerge
        explore_nomerge(spec, report, ops, 4 if tier == 'quick' else 5)


def replay(case):
    from ..seqx import replay_history
    return replay_history(Spec('thorough'), case['root'], [_tuplify(o) for o in case['history']])
