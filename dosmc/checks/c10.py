"""C10: compression is transparent and honours the requested mode.  Engine E5 (complete lattice) with step monitors.

Enumerated: contents {empty, 1 byte, 10 compressible bytes, 64 incompressible bytes, 200 KiB compressible, 200 KiB
incompressible, 300 KiB half/half (beyond the 128 KiB sampling window of the AUTO heuristic)} all in one container, stored
{loose then pack_all_loose(m0) for m0 in NO/YES/KEEP/AUTO/True/False; directly to a pack plain; directly compressed; directly with
compressed and plain objects interleaved in the same packs; imported from another container with compress=True / False and a tiny
memory budget},
followed by *every* chain of repack(m) of length 3 over {KEEP, YES, NO, AUTO} (64 chains; all shorter chains are their
prefixes), for zlib levels {1, 9} (quick) / 1..9 (thorough) and a small / the default pack_size_target.
Oracle after every step: every object reads back unchanged (single, bulk, chunked); flag rule - YES: all stored
compressed, NO: none, KEEP: every flag equals the previous one, AUTO: unconstrained; recorded size == content length;
recorded stored length == the extent of the stored stream (the zlib stream ends exactly at offset+length; size == length
when uncompressed) as measured by the library-independent reader; get_total_size equals the sums.
"""
import hashlib
import itertools
import os

from disk_objectstore import Container, CompressMode

from ..common import fresh_dir, pmap, rmtree, seed
from ..rawread import RawState, invariants
from ..report import Violation
from .c01 import big_item

LEVEL = 'model_checking'

MODES = ('KEEP', 'YES', 'NO', 'AUTO')
STORES = ['loose-NO', 'loose-YES', 'loose-KEEP', 'loose-AUTO', 'loose-True', 'loose-False', 'direct-plain', 'direct-compressed',
          'direct-mixed', 'import-YES', 'import-NO']


def contents():
    return [b'', b'Q', b'ab' * 5, big_item(64, 'incompressible'), big_item(200 * 1024, 'periodic'),
            big_item(200 * 1024, 'incompressible'), big_item(300 * 1024, 'half')]


def observe(c, root, items, keys):
    """(flags by key, problems) for the current state."""
    probs = []
    raw = RawState(root)
    for clause, detail in invariants(raw):
        probs.append(('raw-' + clause, detail))
    rows = raw.rows_by_key()
    flags = {}
    bulk = c.get_objects_content(keys)
    for k, d in zip(keys, items):
        if bulk.get(k) != d:
            probs.append(('content-changed', f'{len(d)}-byte object reads back as {None if bulk.get(k) is None else len(bulk[k])} bytes'))
        meta = c.get_object_meta(k)
        if meta.size != len(d):
            probs.append(('size', f'{len(d)}-byte object has recorded size {meta.size}'))
        r = rows.get(k, [None])[0]
        if r is None:
            probs.append(('not-packed', f'{len(d)}-byte object has no index row'))
            continue
        flags[k] = r.compressed
        if (meta.pack_compressed, meta.pack_length, meta.pack_offset) != (r.compressed, r.length, r.offset):
            probs.append(('meta-vs-index', f'meta {meta} disagrees with the index row {tuple(r)}'))
        with c.get_object_stream(k) as s:
            parts = []
            while True:
                x = s.read(70000)
                if not x:
                    break
                parts.append(x)
            if b''.join(parts) != d:
                probs.append(('content-changed', f'chunked read of the {len(d)}-byte object differs'))
    ts = c.get_total_size()
    exp = (sum(len(d) for d in items), sum(r.length for r in raw.rows), sum(len(b) for b in raw.packs.values()))
    got = (ts.total_size_packed, ts.total_size_packed_on_disk, ts.total_size_packfiles_on_disk)
    if got != exp:
        probs.append(('total-size', f'get_total_size {got} expected {exp}'))
    return flags, probs


def rule(mode, prev_flags, flags, items, keys, what):
    probs = []
    for k, d in zip(keys, items):
        f = flags.get(k)
        if f is None:
            continue
        if mode in ('YES', 'True') and not f:
            probs.append(('mode-YES', f'{what}: the {len(d)}-byte object is stored uncompressed'))
        if mode in ('NO', 'False') and f:
            probs.append(('mode-NO', f'{what}: the {len(d)}-byte object is stored compressed'))
        if mode == 'KEEP' and prev_flags is not None and f != prev_flags.get(k):
            probs.append(('mode-KEEP', f'{what}: the {len(d)}-byte object changed from compressed={prev_flags.get(k)} to {f}'))
        if mode == 'KEEP' and prev_flags is None and f:
            probs.append(('mode-KEEP', f'{what}: the {len(d)}-byte loose object was stored compressed by KEEP'))
    return probs


def _case(arg):
    store, level, target, chain = arg
    items = contents()
    d = fresh_dir('c10')
    root = os.path.join(d, 'c')
    c = Container(root)
    out = []
    try:
        c.init_container(compression_algorithm=f'zlib+{level}', pack_size_target=target)
        if store.startswith('loose-'):
            m0 = store.split('-')[1]
            keys = [c.add_object(x) for x in items]
            c.pack_all_loose(compress={'True': True, 'False': False}.get(m0) if m0 in ('True', 'False') else CompressMode[m0])
            c.clean_storage()
            first_mode = m0
        elif store.startswith('import-'):
            # objects arrive through import_objects(compress=...) from another container, with a memory budget of 70 bytes: the small
            # objects go through the in-memory cache (flushed in the middle and at the end), the large ones are streamed
            comp = store == 'import-YES'
            src = Container(os.path.join(d, 'src'))
            src.init_container(compression_algorithm=f'zlib+{level}')
            try:
                keys = [src.add_object(x) for x in items]
                src.pack_all_loose(compress=CompressMode.AUTO)
                c.import_objects(keys, src, compress=comp, target_memory_bytes=70)
            finally:
                src.close()
            first_mode = 'YES' if comp else 'NO'
        elif store == 'direct-mixed':
            # compressed and plain objects interleaved in the same pack files (what KEEP must preserve object by object)
            ka = c.add_objects_to_pack(items[0::2], compress=True)
            kb = c.add_objects_to_pack(items[1::2], compress=False)
            keys = [None] * len(items)
            keys[0::2], keys[1::2] = ka, kb
            first_mode = 'AUTO'
        else:
            comp = store == 'direct-compressed'
            keys = c.add_objects_to_pack(items, compress=comp)
            first_mode = 'YES' if comp else 'NO'
        flags, probs = observe(c, root, items, keys)
        probs += rule(first_mode, None, flags, items, keys, f'after {store}')
        out += [(0, cl, de) for cl, de in probs]
        prev = flags
        for i, m in enumerate(chain):
            if out:
                break
            c.repack(CompressMode[m])
            flags, probs = observe(c, root, items, keys)
            probs += rule(m, prev, flags, items, keys, f'after repack({m}) (step {i + 1} of {store} -> {"/".join(chain)})')
            out += [(i + 1, cl, de) for cl, de in probs]
            prev = flags
        return out[:4]
    except Exception as exc:  # pylint: disable=broad-except
        import traceback
        tb = traceback.extract_tb(exc.__traceback__)[-1]
        return out + [(len(chain), 'exception', f'{type(exc).__name__}: {exc} at {os.path.basename(tb.filename)}:{tb.lineno}')]
    finally:
        c.close()
        rmtree(d)


def run(tier, report):
    q = tier == 'quick'
    levels = (1, 9) if q else tuple(range(1, 10))
    targets = (1000,) if q else (1000, 4 * 1024 ** 3)
    chains = list(itertools.product(MODES, repeat=3))
    cases = [(s, lv, tg, ch) for s in STORES for lv in levels for tg in targets for ch in chains]
    if q:
        # quick: all 64 chains for three representative stores, chains of length 2 (16) for the others
        keep = {'loose-NO', 'direct-compressed', 'loose-AUTO', 'direct-mixed', 'import-YES'}
        cases = [cse for cse in cases if cse[0] in keep or cse[3][2] == 'KEEP']
        cases = [(s, lv, tg, ch if s in keep else ch[:2]) for s, lv, tg, ch in cases]
    res = pmap(_case, cases, progress='C10' if len(cases) > 300 else None)
    steps = 0
    for (s, lv, tg, ch), out in zip(cases, res):
        steps += 1 + len(ch)
        seen = set()
        for i, clause, detail in out:
            if clause in seen:
                continue
            seen.add(clause)
            fp = {'engine': 'grids', 'clause': clause, 'mode': ch[i - 1] if i else s}
            report.add_violation(Violation('C10', 'grids', clause, {'store': s, 'level': lv, 'target': tg, 'chain': list(ch)},
                                           f'level {lv} target {tg}: {detail}', fp))
    cov = report.coverage
    cov['evaluations'] = steps
    cov['distinct_nontrivial'] = len(cases)
    cov['objects_per_case'] = 7
    cov['exhaustive'] = True
    cov['rule'] = ('complete product initial store x zlib level x pack target x repack chain; every step (initial store and each repack) is '
                   'judged; evaluations = steps judged, distinct = distinct (store, level, target, chain) cases')
    cov['samples'] = [{'store': c_[0], 'level': c_[1], 'target': c_[2], 'chain': list(c_[3])} for c_ in (cases[0], cases[len(cases) // 2], cases[-1])]
    report.assumptions += ['seven fixed contents; chains of at most 3 repacks; AUTO imposes no constraint on the flag (only on content and bookkeeping)']


def replay(case):
    return _case((case['store'], case['level'], case['target'], tuple(case['chain'])))
