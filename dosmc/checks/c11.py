"""C11: deletion removes exactly the requested objects; repack reclaims their space.  Engine E1 (seqx), phased alphabet.

Enumerated: every state reached by a bounded build phase (add / direct-to-pack plain and compressed / pack_all_loose with
and without per-pack cleaning / clean_storage / loosen, plus the environment event "stray duplicate file" created the
way ObjectWriter._store_duplicate_copy does); from each such state delete_objects(S) for *every* subset S of the
universe keys plus an absent key (2^5 = 32 lists, and one list with a repeated key); from each resulting state
repack(mode) for the four modes.
Oracle: delete returns exactly the requested keys that existed (no repeats); all views equal the model minus S (view
battery on every distinct state); no file of a deleted key remains in duplicates/; after repack every pack file equals
the concatenation, in offset order, of its live rows' stored bytes and no pack file without rows exists.
"""
import itertools

from disk_objectstore import Container

from ..seqx import SeqSpec, explore
from ..views import battery
from ..world import ABSENT_IDX
from .c02 import _tuplify

LEVEL = 'model_checking'

SUBSETS = []
for n in range(0, 6):
    for c in itertools.combinations((0, 1, 2, 3, ABSENT_IDX), n):
        SUBSETS.append(c)
SUBSETS.append((1, 3, 1))


class Spec(SeqSpec):
    prop = 'C11'
    thresholds = (2, 9500)      # delete_objects / lookups of 3+ keys run over several IN batches (defaults are covered by C02/C16)

    def __init__(self, tier):
        self.tier = tier
        self.build_depth = 3 if tier == 'quick' else 4
        self.depth = self.build_depth + 2
        self.max_variants = 10

    def roots(self):
        # second root: flat loose folder (loose_prefix_len=0) and sha1, with a shorter build phase
        return [('empty', {}, []),
                ('empty-flat-loose-sha1', {'loose_prefix_len': 0, 'hash_type': 'sha1'}, [], {'depth': self.build_depth + 1})]

    def core_ops(self, root_name):
        ops = [('add', 0), ('add', 1), ('add', 3), ('topack', (1, 2), False, False, True), ('topack', (3, 0), True, False, True),
               ('pack', 'NO', False, True), ('pack', 'YES', True, True), ('clean', False), ('loosen', 1), ('dup', 1), ('dup', 3)]
        ops += [('delete', s) for s in SUBSETS]
        ops += [('repack', m) for m in ('KEEP', 'YES', 'NO', 'AUTO')]
        return ops

    def enabled(self, hist, op):
        phase = 0
        for o in hist:
            if o[0] == 'delete':
                phase = 1
            elif o[0] == 'repack':
                phase = 2
        if phase == 2:
            return False
        if phase == 1:
            return op[0] == 'repack'
        if op[0] == 'repack':
            return False            # repack only after the delete (plain repack is covered by C02/C10)
        if op[0] == 'delete':
            return True
        if len(hist) >= self.build_depth:
            return False
        if op[0] == 'clean' and any(o[0] == 'dup' for o in hist):
            return False            # clean_storage with stray duplicates is its own (Windows-only) story; not part of C11
        return True

    def terminal(self, op):
        return op[0] == 'repack'

    def step_check(self, world, before, after, res, hist, model_before):
        probs = []
        op = res.op
        for d in after.missing_folders:
            probs.append(('container-folder-missing', f'after {op[0]} the {d}/ folder of the container no longer exists'))
        if op[0] == 'delete':
            deleted = {world.model.key(i) for i in op[1]}
            for name in after.duplicates:
                if name.partition('.')[0] in deleted:
                    probs.append(('duplicate-left', f'stray duplicate {name[:12]}... of a deleted key survives delete_objects'))
            # other objects untouched: every remaining row/loose file identical
            for k in world.model.present():
                if before.object_bytes(k) != after.object_bytes(k):
                    probs.append(('collateral', f'object {k[:8]} that was not requested changed'))
        if op[0] == 'repack':
            live = {}
            for r in after.rows:
                live.setdefault(str(r.pack_id), []).append(r)
            for p, data in after.packs.items():
                rows = sorted(live.get(p, []), key=lambda r: r.offset)
                if not rows:
                    probs.append(('empty-pack-left', f'pack file {p} ({len(data)} bytes) has no live object after a full repack'))
                    continue
                parts = [after.stored_bytes(r) for r in rows]
                if any(x is None for x in parts):
                    continue       # reported by the state check (C03-style)
                if b''.join(parts) != data:
                    probs.append(('unreferenced-bytes', f'pack {p} has {len(data)} bytes but its live objects occupy {sum(map(len, parts))}'))
            for p in live:
                if p not in after.packs:
                    probs.append(('pack-missing', f'index rows point to pack {p} which does not exist after repack'))
        return probs

    def state_check(self, world, raw, hist):
        if not hist or hist[-1][0] not in ('delete', 'repack'):
            return []
        f = Container(world.root)
        try:
            return battery(f, world.model, raw, tag='fresh handle: ')
        finally:
            f.close()


def run(tier, report):
    spec = Spec(tier)
    report.assumptions += ['build phase bounded in depth; 4-content universe + one absent key',
                           'stray duplicate files are synthesised by the harness (the Windows-only code path that creates them cannot run on Linux)']
    report.coverage['rule'] = ('BFS: build phase, then delete_objects(S) for every subset S, then repack(mode) for every mode; '
                               'delete/repack monitors on every transition, view battery on every distinct post-delete/post-repack state')
    explore(spec, report)
    report.coverage['delete_subsets'] = len(SUBSETS)


def replay(case):
    from ..seqx import replay_history
    return replay_history(Spec('thorough'), case['root'], [_tuplify(o) for o in case['history']])
