"""C12: validate() is clean on every reachable state and never clean on a damaged one.  Engine E1 + damage enumerator.

(a) No false positives: validate().is_valid() on every distinct canonical state of a bounded history search (as C02).
(b) No false negatives: for every distinct state (depth-bounded, core alphabet) that holds at least one object,
    *every* single damage of the classes below is applied in place, validate() is run through a fresh handle, and the
    damage is undone:
      - every single-bit flip and every truncation of every loose file (and a 1-byte extension);
      - every single-bit flip of every *referenced* pack byte and every truncation point inside the referenced region;
      - for every index row: offset +-1 and +-length, length +-1 and 0, size +-1, compressed flipped, pack_id -> another
        existing pack / a non-existing pack.
    Ground truth (independent of the library): with the damage in place every model object is resolved with
    sqlite3+slice+zlib the way the library resolves it (index entry first, then loose file); the object is *harmed* if it
    cannot be read, reads as different bytes, or its recorded size differs from the content length.  If some object is
    harmed, validate() must raise or return a report with is_valid() == False.  Damage that harms no object imposes
    nothing.
"""
import os
import sqlite3
import zlib

from disk_objectstore import Container

from ..common import REAL, ExecTimeout, maybe_collect, time_limit
from ..rawread import RawState
from ..seqx import SeqSpec, explore
from ..world import core_alphabet, variant_alphabet
from .c02 import ROOT_PREFIXES, _tuplify

LEVEL = 'model_checking'


def resolve(raw, key):
    """Content of `key` the way the library reads it (lenient about bytes after the end of a zlib stream)."""
    rows = raw.rows_by_key().get(key)
    if rows:
        r = rows[0]
        pack = raw.packs.get(str(r.pack_id))
        if pack is None or r.offset < 0 or r.length < 0 or str(r.pack_id).startswith('-'):
            return None, r
        # like a bounded read on the pack file: a range reaching beyond the end of the file yields the bytes that exist
        data = pack[r.offset:r.offset + r.length]
        if r.compressed:
            d = zlib.decompressobj()
            try:
                out = d.decompress(data)
            except zlib.error:
                return None, r
            if not d.eof:
                return None, r
            return out, r
        return data, r
    return raw.loose.get(key), None


def harmed(root, model):
    raw = RawState(root)
    out = []
    for k, content in model.mapping().items():
        got, row = resolve(raw, k)
        if got != content:
            out.append((k, 'unreadable' if got is None else 'different bytes'))
        elif row is not None and row.size != len(content):
            out.append((k, f'recorded size {row.size} != {len(content)}'))
        elif row is not None and row.compressed and k in raw.loose and raw.loose[k] != content:
            # the loose copy of a compressed packed object is what a seeking stream switches to (LazyLooseStream / loosen_object)
            out.append((k, 'different bytes through a seeking stream (damaged re-loosened copy of a compressed object)'))
    return out


def validate_outcome(root):
    c = Container(root)
    try:
        with time_limit(10):
            try:
                rep = c.validate()
            except ExecTimeout:
                return 'hang'
            except Exception as exc:  # pylint: disable=broad-except
                return f'raised {type(exc).__name__}'
        return 'clean' if rep.is_valid() else 'reported'
    finally:
        c.close()


def enumerate_damages(raw):
    """Yield (description, apply(), undo()) for every single damage of the state."""
    root = raw.root
    pl = raw.prefix_len
    for k, data in raw.loose.items():
        path = os.path.join(root, 'loose', k[:pl], k[pl:]) if pl else os.path.join(root, 'loose', k)
        for i in range(len(data) * 8):
            mod = bytearray(data)
            mod[i // 8] ^= 1 << (i % 8)
            yield (f'loose {k[:8]} bit {i}', 'loose-bitflip', path, bytes(mod), data)
        for t in range(len(data)):
            yield (f'loose {k[:8]} truncated to {t}', 'loose-truncate', path, data[:t], data)
        yield (f'loose {k[:8]} extended by 1 byte', 'loose-extend', path, data + b'\x00', data)
    for p, data in raw.packs.items():
        rows = [r for r in raw.rows if str(r.pack_id) == p]
        ref = set()
        for r in rows:
            ref.update(range(r.offset, r.offset + r.length))
        path = os.path.join(root, 'packs', p)
        for b in sorted(ref):
            if b >= len(data):
                continue
            for bit in range(8):
                mod = bytearray(data)
                mod[b] ^= 1 << bit
                yield (f'pack {p} byte {b} bit {bit}', 'pack-bitflip', path, bytes(mod), data)
        if ref:
            for t in range(min(ref), min(max(ref) + 1, len(data))):
                yield (f'pack {p} truncated to {t}', 'pack-truncate', path, data[:t], data)
    pack_ids = sorted(int(p) for p in raw.packs)
    for r in raw.rows:
        vals = []
        for d in (-1, 1, -r.length, r.length):
            if d:
                vals.append(('offset', r.offset + d))
        for v in (r.length - 1, r.length + 1, 0):
            if v != r.length:
                vals.append(('length', v))
        vals += [('size', r.size - 1), ('size', r.size + 1), ('compressed', 0 if r.compressed else 1)]
        for pid in pack_ids:
            if pid != r.pack_id:
                vals.append(('pack_id', pid))
        vals.append(('pack_id', (max(pack_ids) if pack_ids else 0) + 7))
        for col, v in vals:
            yield (f'row {r.hashkey[:8]} {col} {getattr(r, col) if col != "compressed" else int(r.compressed)} -> {v}', 'index-' + col,
                   ('sql', col, r.rowid), v, int(getattr(r, col)) if col != 'compressed' else int(r.compressed))


def damage_pass(world, raw):
    """Apply every damage; return (n_damages, n_harming, violations, outcome counts)."""
    for h in world.handles:
        h.close()
    viol = []
    n = harming = 0
    outcomes = {}
    con = sqlite3.connect(os.path.join(world.root, 'packs.idx'))
    try:
        for desc, cls, target, new, old in enumerate_damages(raw):
            n += 1
            maybe_collect(200)
            if isinstance(target, tuple):
                _, col, rowid = target
                con.execute(f'UPDATE db_object SET {col}=? WHERE id=?', (new, rowid))
                con.commit()
            else:
                with REAL['open'](target, 'wb') as fh:
                    fh.write(new)
            try:
                harm = harmed(world.root, world.model)
                out = validate_outcome(world.root)
                outcomes[out] = outcomes.get(out, 0) + 1
                if harm:
                    harming += 1
                    if out == 'clean':
                        viol.append((cls + '-undetected', f'{desc}: object {harm[0][0][:8]} is {harm[0][1]} but validate() returned a clean report'))
                    elif out == 'hang':
                        viol.append((cls + '-hang', f'{desc}: validate() did not return within 10 s'))
            finally:
                if isinstance(target, tuple):
                    con.execute(f'UPDATE db_object SET {target[1]}=? WHERE id=?', (old, target[2]))
                    con.commit()
                else:
                    with REAL['open'](target, 'wb') as fh:
                        fh.write(old)
    finally:
        con.close()
    return n, harming, viol, outcomes


class Spec(SeqSpec):
    prop = 'C12'

    def __init__(self, tier, part):
        self.tier = tier
        self.part = part
        if part == 'a':
            self.depth = 3 if tier == 'quick' else 4
            self.max_variants = 1
        else:
            self.depth = 2 if tier == 'quick' else 3
            self.max_variants = 0 if tier == 'quick' else 1
            self.horizon = 300        # one state check applies a few thousand damages

    def roots(self):
        if self.tier == 'quick' or self.part == 'b':
            return [('empty', {}, [])] + ([('mixed-holes', {}, ROOT_PREFIXES['mixed-holes'])] if self.part == 'b' and self.tier != 'quick' else [])
        shallow = {'depth': 3, 'max_variants': 2}
        return [('empty', {}, [])] + [(n + '-d3v2', {}, p, shallow) for n, p in ROOT_PREFIXES.items() if n != 'empty']

    def core_ops(self, root_name):
        if self.part == 'b':
            # a compact alphabet that reaches every storage form: loose, packed plain/compressed, several packs, holes
            return [('add', 1), ('add', 3), ('topack', (2, 3), False, False, True), ('topack', (1,), True, False, True),
                    ('pack', 'NO', False, True), ('pack', 'YES', True, True), ('clean', False), ('delete', (1,)), ('repack', 'KEEP'),
                    ('add', 0), ('topack', (0,), True, False, True)]
        return core_alphabet()

    def variant_ops(self, root_name):
        return variant_alphabet()

    def state_check(self, world, raw, hist):
        probs = []
        f = Container(world.root)
        try:
            rep = f.validate()
            if not rep.is_valid():
                probs.append(('false-positive', f'validate() on a state reached through public operations reports {rep}'))
        except Exception as exc:  # pylint: disable=broad-except
            probs.append(('false-positive', f'validate() raised {type(exc).__name__}: {exc}'))
        finally:
            f.close()
        if self.part == 'b' and world.model.present() and not probs:
            n, harming, viol, outcomes = damage_pass(world, raw)
            probs += viol[:5]
            probs.append(('__stats__', f'{n} {harming} {outcomes.get("clean", 0)} {outcomes.get("reported", 0)} '
                                       f'{sum(v for k, v in outcomes.items() if k.startswith("raised"))}'))
        return probs


def run(tier, report):
    from ..report import Report
    cov = report.coverage
    # (a)
    spec = Spec(tier, 'a')
    explore(spec, report)
    a_states, a_trans = cov['states'], cov['transitions']
    # (b)
    if not report.violations:
        sub = Report('C12', tier, LEVEL)
        explore(Spec(tier, 'b'), sub)
        n = harming = clean = reported = raised = 0
        for _clause, detail in sub.stats:
            a, b, c, d, e = map(int, detail.split())
            n += a; harming += b; clean += c; reported += d; raised += e
        for v in sub.violations:
            v.fingerprint = {'engine': 'seqx+damage', 'clause': v.clause}
            report.add_violation(v)
        cov['damage_states'] = sub.coverage['states']
        cov['damages_applied'] = n
        cov['damages_harming_an_object'] = harming
        cov['validate_outcomes_under_damage'] = {'clean': clean, 'reported': reported, 'raised': raised}
        cov['states'] = a_states + sub.coverage['states']
        cov['transitions'] = a_trans + sub.coverage['transitions']
        cov['traces_validated_against_impl'] = cov['traces_validated_against_impl'] + sub.coverage['traces_validated_against_impl'] + n
        cov['exhaustive'] = cov['exhaustive'] and sub.coverage['exhaustive']
    report.assumptions += ['single damages only (one bit, one truncation point, one index field)',
                           'damage is judged harmful by a library-independent reader that resolves objects index-first, like the library']
    cov['rule'] = ('(a) BFS as C02 with validate() on every distinct state; (b) on every distinct state of a smaller BFS every single '
                   'bit flip / truncation / index-field perturbation is applied, judged against an independent ground truth, and undone')


def replay(case):
    from ..seqx import replay_history
    spec = Spec('thorough', 'b')
    from .c02 import all_roots
    spec.roots = all_roots
    return [x for x in replay_history(spec, case['root'], [_tuplify(o) for o in case['history']]) if x[1] != '__stats__']
