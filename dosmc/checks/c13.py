"""C13: packs are append-only and filled in order (rsync-friendly layout).  Engine E1 (seqx) with before/after monitors.

Enumerated: histories (depth/deviation bounded, merged by canonical state) over add / pack_all_loose (all options) /
clean_storage / import / direct-to-pack (all options) / delete / reopen through two handles - no repack - for a small
(25 bytes: several packs) and the default (4 GiB) pack_size_target.
Oracle on every transition: every index row present before the step still designates the same bytes and the pack is not
shorter than its last referenced byte; a pack that was not the highest-numbered one before the step is byte-identical
after it; pack files are numbered 0..n-1; every pack except the highest has reached the target size.
"""
from ..seqx import SeqSpec, explore
from .c02 import _tuplify

LEVEL = 'model_checking'


def pack_monitor(before, after, target):
    probs = []
    b_ids = sorted(int(p) for p in before.packs)
    a_ids = sorted(int(p) for p in after.packs)
    if a_ids != list(range(len(a_ids))):
        probs.append(('numbering', f'pack files after the step are {a_ids}, expected 0..{len(a_ids) - 1}'))
    for r in before.rows:
        old = before.stored_bytes(r)
        if old is None:
            continue
        data = after.packs.get(str(r.pack_id))
        if data is None:
            probs.append(('pack-vanished', f'pack {r.pack_id} referenced by {r.hashkey[:8]} before the step no longer exists'))
            continue
        if len(data) < r.offset + r.length:
            probs.append(('shrunk', f'pack {r.pack_id} is {len(data)} bytes, shorter than byte {r.offset + r.length} referenced before the step'))
        elif data[r.offset:r.offset + r.length] != old:
            probs.append(('rewritten', f'bytes [{r.offset},{r.offset + r.length}) of pack {r.pack_id} referenced by {r.hashkey[:8]} changed'))
    if b_ids:
        highest = max(b_ids)
        for p in b_ids:
            if p != highest and after.packs.get(str(p)) != before.packs[str(p)]:
                probs.append(('closed-pack-written', f'pack {p} was not the highest-numbered pack before the step but its bytes changed'))
    if a_ids:
        for p in a_ids[:-1]:
            if len(after.packs[str(p)]) < target:
                probs.append(('underfull', f'pack {p} has {len(after.packs[str(p)])} bytes (< target {target}) but pack {a_ids[-1]} exists'))
    return probs


class Spec(SeqSpec):
    prop = 'C13'
    nhandles = 2

    def __init__(self, tier):
        self.tier = tier
        self.depth = 3 if tier == 'quick' else 4
        self.max_variants = 2

    def roots(self):
        r = [('small-target', {'pack_size_target': 25}, []),
             # pack 0 filled to *exactly* the target (12 + 16 bytes), pack 1 exists: a later writer must never go back to pack 0
             ('exact-fill-d3', {'pack_size_target': 28}, [('topack', (1, 2), False, False, True), ('topack', (0,), False, False, True)],
              {'depth': 3, 'max_variants': 1})]
        if self.tier != 'quick':
            shallow = {'depth': 3, 'max_variants': 3}
            r.append(('big-target-d3v3', {'pack_size_target': 4 * 1024 ** 3}, [], shallow))
            r.append(('small-target-sha1-p0-d3v3', {'pack_size_target': 25, 'hash_type': 'sha1', 'loose_prefix_len': 0}, [], shallow))
            r.append(('target-60-d3v3', {'pack_size_target': 60}, [], shallow))
        return r

    def core_ops(self, root_name):
        ops = [('add', i) for i in range(4)]
        ops += [('topack', (i,), False, False, True) for i in range(4)]
        ops += [('pack', 'NO', False, True), ('clean', False), ('switch', 1), ('switch', 0)]
        return ops

    def variant_ops(self, root_name):
        ops = []
        for batch in ((1, 2), (2, 1), (1, 1, 3), (3, 0, 3), (2, 1, 0)):
            for compress in (False, True):
                for nh, tw in ((False, True), (True, True), (True, False)):
                    ops.append(('topack', batch, compress, nh, tw))
        ops.append(('stopack', (2, 1, 2), True, True, False, True))
        ops.append(('sotopack', 1, False, True, False))
        for mode in ('YES', 'AUTO'):
            for per_pack in (False, True):
                ops.append(('pack', mode, per_pack, True))
        ops.append(('pack', 'NO', True, True))
        ops.append(('pack', 'NO', False, True, ('kw', ('do_fsync', False))))
        ops.append(('import', (0, 1, 2, 3), False, 104857600, 'same'))
        ops.append(('import', (1, 2, 3), True, 13, 'other'))
        ops.append(('delete', (1,)))
        ops.append(('delete', (2, 3)))
        ops.append(('reopen',))
        ops.append(('reinit_clear',))
        ops.append(('reinit_clear', 'other-target'))     # ... with another pack size target (25 <-> 60), same handle
        return ops

    def enabled(self, hist, op):
        if op[0] == 'switch':
            cur = 0
            for o in hist:
                if o[0] == 'switch':
                    cur = o[1]
            return cur != op[1]
        return True

    def step_check(self, world, before, after, res, hist, model_before):
        if res.op[0] == 'reinit_clear':
            # the container is wiped on purpose: only the layout rules apply to the (empty) result, and - what matters -
            # to every later step of the same handle
            from ..rawread import RawState
            empty = RawState.__new__(RawState)
            empty.packs, empty.rows = {}, []
            return pack_monitor(empty, after, world.config['pack_size_target'])
        return pack_monitor(before, after, world.config['pack_size_target'])


def run(tier, report):
    spec = Spec(tier)
    report.assumptions += ['no repack in the histories (excluded by the property statement)', '4-content universe; depth/deviation bounded']
    report.coverage['rule'] = ('BFS over histories without repack through two handles; every transition compares every pack file and '
                               'every index row before and after the step')
    explore(spec, report)


def replay(case):
    from ..seqx import replay_history
    spec = Spec('thorough')
    return replay_history(spec, case['root'], [_tuplify(o) for o in case['history']])
