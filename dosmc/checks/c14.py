"""C14: importing transfers exactly the requested objects, byte-identical.  Engine E5 (complete product).

Enumerated (full product, nothing sampled): source hash x destination hash in {sha1, sha256}^2; source holding 5 objects
(sizes 0, 3, 10, 50, 200) in a given distribution over forms (loose / packed / packed compressed / both); destination
pre-state {empty, some loose, some packed, some both}; compress {F, T}; target_memory_bytes {1, 9, 10, 11, 60, 10^6} (all
three cache branches, sizes straddling the budget in mixed order); destination pack_size_target {64, 4 GiB}; requested
keys {all, subset, with absent keys, with repeats, empty}; iterable kind {list, tuple, set, one-shot generator};
callback {None, recording}.
Oracle: every requested key the source holds is readable in the destination under H_dst(content) with identical bytes;
mapping[k] == H_dst(content_k) for every k it mentions and it mentions only requested source keys; index keys unique;
pre-existing destination rows and loose files untouched; with equal hash types nothing is written for objects the
destination already held (pack files grow exactly by the stored lengths of the new rows) - with different hash types
they at least never gain a second row; absent keys are ignored.
"""
import hashlib
import itertools
import os

from disk_objectstore import Container

from ..common import fresh_dir, pmap, rmtree
from ..rawread import RawState, invariants
from ..report import Violation

LEVEL = 'model_checking'

SIZES = (0, 3, 10, 50, 200)
OBJS = [bytes((i * 31 + j * 7) % 256 for j in range(n)) if n != 10 else b'aaaaaaaaaa' for i, n in enumerate(SIZES)]
ABSENT = b'not in the source'

SRC_FORMS = {
    'mixed': ('loose', 'packed', 'compressed', 'both', 'compressed'),
    'all-loose': ('loose',) * 5,
    'all-compressed': ('compressed',) * 5,
}
DST_PRE = {
    'empty': {},
    'some-loose': {1: 'loose', 3: 'loose'},
    'some-packed': {0: 'packed', 2: 'compressed', 4: 'packed'},
    'some-both': {1: 'both', 2: 'loose', 4: 'compressed'},
}
KEYSETS = {
    'all': (0, 1, 2, 3, 4),
    'subset': (4, 1),
    'with-absent': (9, 0, 3, 9),
    'with-repeats': (2, 4, 2, 0, 0),
    'empty': (),
}
BUDGETS = (1, 9, 10, 11, 60, 10 ** 6)


def H(b, t):
    return hashlib.new(t, b).hexdigest()


def store(c, i, form):
    d = OBJS[i]
    if form in ('loose', 'both'):
        c.add_object(d)
    if form in ('packed', 'both'):
        c.add_objects_to_pack([d], compress=False)
    if form == 'compressed':
        c.add_objects_to_pack([d], compress=True)


def _case(arg):
    hs, hd, forms, pre, compress, budget, target, ks, kind, cb = arg
    d = fresh_dir('c14')
    src = Container(os.path.join(d, 's'))
    dst = Container(os.path.join(d, 'd'))
    probs = []
    try:
        src.init_container(hash_type=hs, pack_size_target=120)
        dst.init_container(hash_type=hd, pack_size_target=target)
        for i, f in enumerate(SRC_FORMS[forms]):
            store(src, i, f)
        for i, f in DST_PRE[pre].items():
            store(dst, i, f)
        before = RawState(dst.get_folder().as_posix())
        req = [H(ABSENT, hs) if i == 9 else H(OBJS[i], hs) for i in KEYSETS[ks]]
        if kind == 'list':
            arg_keys = list(req)
        elif kind == 'tuple':
            arg_keys = tuple(req)
        elif kind == 'set':
            arg_keys = set(req)
        else:
            arg_keys = (k for k in req)
        calls = []
        callback = (lambda action, value: calls.append(action)) if cb else None
        mapping = dst.import_objects(arg_keys, src, compress=compress, target_memory_bytes=budget, callback=callback)
        after = RawState(dst.get_folder().as_posix())
        wanted = {i for i in KEYSETS[ks] if i != 9}
        for i in wanted:
            ks_, kd_ = H(OBJS[i], hs), H(OBJS[i], hd)
            got = after.object_bytes(kd_)
            if got != OBJS[i]:
                probs.append(('not-imported', f'object of size {SIZES[i]} is {"missing" if got is None else "wrong"} in the destination'))
            try:
                if dst.get_object_content(kd_) != OBJS[i]:
                    probs.append(('not-imported', f'object of size {SIZES[i]} reads back wrong through the destination handle'))
            except Exception as exc:  # pylint: disable=broad-except
                probs.append(('not-imported', f'object of size {SIZES[i]}: {type(exc).__name__} through the destination handle'))
            if ks_ in mapping and mapping[ks_] != kd_:
                probs.append(('mapping', f'mapping sends the source key of the size-{SIZES[i]} object to {mapping[ks_][:10]}, expected {kd_[:10]}'))
            if ks_ not in mapping and kd_ not in before.present_keys() :
                probs.append(('mapping', f'source key of the newly imported size-{SIZES[i]} object is not in the returned mapping'))
        extra = set(mapping) - set(req)
        if extra:
            probs.append(('mapping', f'mapping mentions {len(extra)} keys that were not requested'))
        for clause, detail in invariants(after):
            probs.append(('raw-' + clause, detail))
        # untouched pre-existing state
        brow = {r.hashkey: tuple(r)[:6] for r in before.rows}
        arow = {r.hashkey: tuple(r)[:6] for r in after.rows}
        for k, r in brow.items():
            if arow.get(k) != r:
                probs.append(('pre-existing-row-changed', f'row of {k[:10]} changed from {r} to {arow.get(k)}'))
        for k, data in before.loose.items():
            if after.loose.get(k) != data:
                probs.append(('pre-existing-loose-changed', f'loose file {k[:10]} changed'))
        for p, data in before.packs.items():
            if not after.packs.get(p, b'').startswith(data):
                probs.append(('pre-existing-pack-changed', f'pack {p} is no longer an extension of its previous content'))
        new_rows = [r for r in after.rows if r.hashkey not in brow]
        if hs == hd:
            for r in new_rows:
                if r.hashkey in before.present_keys():
                    probs.append(('second-copy', f'object {r.hashkey[:10]} the destination already held loose was written again to a pack'))
            growth = sum(len(b) for b in after.packs.values()) - sum(len(b) for b in before.packs.values())
            if growth != sum(r.length for r in new_rows):
                probs.append(('rewritten', f'pack files grew by {growth} bytes but the new rows occupy {sum(r.length for r in new_rows)}'))
            expect_new = {H(OBJS[i], hd) for i in wanted} - before.present_keys()
            if {r.hashkey for r in new_rows} != expect_new:
                probs.append(('imported-set', f'new rows {sorted(r.hashkey[:6] for r in new_rows)} expected {sorted(k[:6] for k in expect_new)}'))
        else:
            expect_new = {H(OBJS[i], hd) for i in wanted} - set(brow)
            if {r.hashkey for r in new_rows} != expect_new:
                probs.append(('imported-set', f'new rows {sorted(r.hashkey[:6] for r in new_rows)} expected {sorted(k[:6] for k in expect_new)}'))
        return probs[:3]
    except Exception as exc:  # pylint: disable=broad-except
        import traceback
        tb = traceback.extract_tb(exc.__traceback__)[-1]
        return probs + [('exception', f'{type(exc).__name__}: {exc} at {os.path.basename(tb.filename)}:{tb.lineno}')]
    finally:
        src.close()
        dst.close()
        rmtree(d)


def run(tier, report):
    q = tier == 'quick'
    forms = ('mixed',) if q else tuple(SRC_FORMS)
    targets = (64,) if q else (64, 4 * 1024 ** 3)
    cases = [(hs, hd, f, pre, comp, b, tg, ks, kind, cb)
             for hs in ('sha1', 'sha256') for hd in ('sha1', 'sha256') for f in forms for pre in DST_PRE for comp in (False, True)
             for b in BUDGETS for tg in targets for ks in KEYSETS for kind in ('list', 'tuple', 'set', 'generator') for cb in (False, True)]
    res = pmap(_case, cases, progress='C14' if len(cases) > 2000 else None)
    distinct = set()
    for case, probs in zip(cases, res):
        distinct.add(case[:2] + case[3:6] + case[7:])
        seen = set()
        for clause, detail in probs:
            if clause in seen:
                continue
            seen.add(clause)
            hs, hd, f, pre, comp, b, tg, ks, kind, cb = case
            fp = {'engine': 'grids', 'clause': clause, 'same_hash': hs == hd, 'one_shot_iterable_with_callback': kind == 'generator' and cb}
            report.add_violation(Violation('C14', 'grids', clause,
                                           dict(zip(('src_hash', 'dst_hash', 'src_forms', 'dst_pre', 'compress', 'budget', 'target', 'keyset',
                                                     'iterable', 'callback'), case)), f'{case}: {detail}', fp))
    cov = report.coverage
    cov['evaluations'] = len(cases)
    cov['distinct_nontrivial'] = len(distinct)
    cov['exhaustive'] = True
    cov['rule'] = 'complete Cartesian product of the factors in the module docstring; every case is one import_objects call judged by all clauses'
    cov['samples'] = [dict(zip(('src_hash', 'dst_hash', 'src_forms', 'dst_pre', 'compress', 'budget', 'target', 'keyset', 'iterable', 'callback'), cases[i]))
                      for i in (0, len(cases) // 3, len(cases) - 1)]
    report.assumptions += ['five fixed object sizes 0..200 bytes; one import call per case (histories with imports are in C02)']


def replay(case):
    c = case
    return _case((c['src_hash'], c['dst_hash'], c['src_forms'], c['dst_pre'], c['compress'], c['budget'], c['target'], c['keyset'], c['iterable'], c['callback']))
