"""C15: a backup taken while the container is in use is complete and consistent.  Engine E2 (placement / schedule enumeration).

The real `backup_utils.backup_container` is run through a real `BackupManager` (real rsync, real sqlite3 online backup,
real mv/ln).  The backup's steps define six gaps: before the loose copy, before the index dump, before the index
transfer, before the packs copy, before the copy of everything else, before the final rename.
Quick tier: client operations are atomic; ALL placements of every client script (add_object, pack_all_loose with and
without per-pack cleaning, clean_storage, direct-to-pack write) over the gaps are executed (C(gaps+ops-1, ops) per
script), with one long-open reader handle keeping the WAL alive; second round: an incremental backup on top of a first
one, with client operations placed between the two backups and in the gaps of the second, for both answers of the
environment to "does the new index dump carry the same modification second as the previous backup's index?" (rsync's
quick check has one-second granularity).
Both tiers additionally run backup and client as real threads under the baton scheduler: the client script is
pre-emptible at each of its visible file-system calls / SQL statements (pre-emption bound 1 quick / 2 thorough), the backup at
its gaps; one script stores a batch directly to a pack with the internal batch size lowered to 2.
Oracle (only for backups that complete without BackupError; completed/failed counts are reported): the backup folder
is opened as a Container: every object acknowledged before the backup started reads back exactly; every key of
list_all_objects() reads back to bytes whose digest is the key; validate() is clean.
"""
import itertools
import os

from disk_objectstore import Container, backup_utils as B

from .. import iolayer
from ..common import H, fresh_dir, pmap, rmtree
from ..report import Violation
from ..sched import Harness, explore

LEVEL = 'model_checking'

L1, L2, P1, Z, N1, N2, N3 = b'loose-one-' * 3, b'loose-two', b'packed-plain-' * 2, b'compressed-' * 8, b'new-loose', b'new-direct-to-pack' * 2, b'third'
CONTENT = {H(x): x for x in (L1, L2, P1, Z, N1, N2, N3, b'fourth-new-object' * 2)}
NGAPS = 6

N4 = b'fourth-new-object' * 2
THREAD_SCRIPTS = {
    # (client script, lowered _IN_SQL_MAX_LENGTH or None)
    'perpack-add-perpack-clean': ([('pack', True), ('add', N1), ('pack', True), ('clean',)], None),
    'direct-batch-of-three': ([('topackn', (N2, N3, N4))], 2),
    'add-pack-clean-direct': ([('add', N1), ('pack', False), ('clean',), ('topack', N2)], None),
}

SCRIPTS = {
    'add-pack-clean-direct': [('add', N1), ('pack', False), ('clean',), ('topack', N2)],
    'perpack-add-perpack-clean': [('pack', True), ('add', N1), ('pack', True), ('clean',)],
    'direct-add-pack-clean': [('topack', N2), ('add', N1), ('pack', False), ('clean',)],
}


def build(root):
    c = Container(root)
    c.init_container(pack_size_target=60)      # pack 0 is partly filled at the start: it grows later (and then a new pack starts)
    c.add_objects_to_pack([P1])
    c.add_objects_to_pack([Z], compress=True)
    c.add_object(L1)
    c.add_object(L2)
    c.close()


def client_op(h, op):
    if op[0] == 'add':
        h.add_object(op[1])
    elif op[0] == 'pack':
        h.pack_all_loose(clean_loose_per_pack=op[1])
    elif op[0] == 'clean':
        h.clean_storage()
    elif op[0] == 'topack':
        h.add_objects_to_pack([op[1]])
    elif op[0] == 'topackn':
        h.add_objects_to_pack(list(op[1]))


def do_backup(src_root, dest, at_gap, same_second=None):
    """Run one real backup; `at_gap(i)` is called at gap i. Returns (ok, error text)."""
    manager = B.BackupManager(dest)
    real_rsync = manager.call_rsync
    real_run = manager.run_cmd
    real_dump = B._sqlite_backup
    calls = [0]

    def call_rsync(src, dst, **kw):
        gap = {0: 0, 1: 2, 2: 3, 3: 4}.get(calls[0])
        calls[0] += 1
        if gap is not None:
            at_gap(gap)
        return real_rsync(src, dst, **kw)

    def run_cmd(args):
        if args and args[0] == 'mv':
            at_gap(5)
        return real_run(args)

    def dump(src, dst):
        at_gap(1)
        real_dump(src, dst)
        if same_second is not None:
            prev = manager.get_last_backup_folder()
            if prev is not None and os.path.exists(os.path.join(prev, 'packs.idx')):
                t = os.stat(os.path.join(prev, 'packs.idx')).st_mtime
                t = int(t) + (0.5 if same_second else 7.5)       # same wall-clock second as the previous index, or later
                os.utime(dst, (t, t))

    manager.call_rsync = call_rsync
    manager.run_cmd = run_cmd
    B._sqlite_backup = dump
    container = Container(src_root)
    try:
        manager.backup_auto_folders(lambda path, prev: B.backup_container(manager, container, path, prev))
        return True, ''
    except B.BackupError as exc:
        return False, str(exc)
    finally:
        B._sqlite_backup = real_dump
        container.close()


def check_backup(folder, must):
    """The oracle on one completed backup folder."""
    probs = []
    try:
        c = Container(folder)
    except Exception as exc:  # pylint: disable=broad-except
        return [('backup-not-a-container', f'{type(exc).__name__}: {exc}')]
    try:
        try:
            listed = list(c.list_all_objects())
        except Exception as exc:  # pylint: disable=broad-except
            return [('backup-unreadable', f'list_all_objects: {type(exc).__name__}: {exc}')]
        for k in must:
            try:
                if c.get_object_content(k) != CONTENT[k]:
                    probs.append(('pre-existing-wrong-bytes', f'object {k[:8]} that existed when the backup started reads back wrong from the backup'))
            except Exception as exc:  # pylint: disable=broad-except
                probs.append(('pre-existing-lost', f'object {k[:8]} that existed when the backup started: {type(exc).__name__} in the backup'))
        for k in listed:
            try:
                b = c.get_object_content(k)
                if H(b) != k:
                    probs.append(('exposed-key-wrong-bytes', f'key {k[:8]} exposed by the backup reads back as other bytes'))
            except Exception as exc:  # pylint: disable=broad-except
                probs.append(('exposed-key-unreadable', f'key {k[:8]} exposed by the backup: {type(exc).__name__}: {exc}'))
        try:
            rep = c.validate()
            if not rep.is_valid():
                probs.append(('backup-validate', f'validate() of the backup reports {rep}'))
        except Exception as exc:  # pylint: disable=broad-except
            probs.append(('backup-validate', f'validate() of the backup raised {type(exc).__name__}: {exc}'))
    finally:
        c.close()
    return probs


def _present(root):
    c = Container(root)
    try:
        return set(c.list_all_objects())
    finally:
        c.close()


def _placement_case(arg):
    """One backup (round 1) or a quiet backup followed by an incremental one (round 2) with a fixed placement."""
    script_name, placement, rnd, same_second = arg
    script = SCRIPTS[script_name]
    d = fresh_dir('c15')
    src = os.path.join(d, 'c')
    dest = os.path.join(d, 'bk')
    try:
        build(src)
        reader = Container(src)
        reader.has_objects(list(CONTENT))        # long-open handle: keeps the WAL alive, pins a snapshot
        client = Container(src)
        try:
            if rnd == 2:
                ok, err = do_backup(src, dest, lambda g: None)
                if not ok:
                    return {'completed': False, 'viol': [], 'err': err}
                for op, g in zip(script, placement):
                    if g == -1:
                        client_op(client, op)
            must = _present(src)

            def at_gap(g):
                for op, pg in zip(script, placement):
                    if pg == g:
                        client_op(client, op)
            ok, err = do_backup(src, dest, at_gap, same_second=same_second)
            if not ok:
                return {'completed': False, 'viol': [], 'err': err}
            # the backup just taken is the one the 'last-backup' symlink points to (folder names carry a one-second timestamp
            # plus a random suffix, so their sort order does not identify it when two backups fall into the same second)
            newest = os.readlink(os.path.join(dest, 'last-backup'))
            folders = sorted(p for p in os.listdir(dest) if p.startswith('backup_'))
            viol = check_backup(os.path.join(dest, newest), must)
            if rnd == 2 and not viol:
                # the first backup must still be intact (hard links must not have been written through)
                first = [p for p in folders if p != newest]
                if len(first) != 1:
                    viol = [('backup-folders', f'expected two backup folders, found {folders}')]
                else:
                    viol = [('first-' + c_, d_) for c_, d_ in check_backup(os.path.join(dest, first[0]), {H(x) for x in (L1, L2, P1, Z)})]
            return {'completed': True, 'viol': viol[:3], 'err': ''}
        finally:
            reader.close()
            client.close()
    finally:
        rmtree(d)


def placements(m, lo, hi):
    """All non-decreasing assignments of m operations to gaps lo..hi."""
    return [p for p in itertools.product(range(lo, hi + 1), repeat=m) if all(p[i] <= p[i + 1] for i in range(m - 1))]


# ---------------------------------------------------------------------------------------------------------------------
# thorough: backup and client as threads under the baton scheduler

class Ctx:
    pass


class BackupHarness(Harness):
    def __init__(self, script_name):
        self.script_name = script_name
        self.name = f'backup|client({script_name})'

    def setup(self):
        from disk_objectstore import Container as _C
        _C._IN_SQL_MAX_LENGTH = THREAD_SCRIPTS[self.script_name][1] or 950
        ctx = Ctx()
        ctx.dir = fresh_dir('c15t')
        ctx.root = os.path.join(ctx.dir, 'c')
        ctx.dest = os.path.join(ctx.dir, 'bk')
        build(ctx.root)
        ctx.reader = Container(ctx.root)
        ctx.reader.has_objects(list(CONTENT))
        ctx.must = _present(ctx.root)
        ctx.result = None
        ctx.outcome = None
        return ctx

    def teardown(self, ctx):
        ctx.reader.close()
        rmtree(ctx.dir)

    def actors(self, ctx, sched):
        def backup():
            with iolayer.busy():      # the backup's own accesses are atomic steps between its gaps
                pass
            ctx.result = do_backup(ctx.root, ctx.dest, lambda g: sched.yield_point(f'backup-gap-{g}'))

        def client():
            h = Container(ctx.root)
            try:
                for op in THREAD_SCRIPTS[self.script_name][0]:
                    client_op(h, op)
            finally:
                h.close()
        return [('B', backup), ('C', client)]

    def check(self, ctx, sched):
        ok, err = ctx.result or (False, 'backup did not run')
        ctx.outcome = 'completed' if ok else 'failed'
        if not ok:
            return []
        return check_backup(os.path.join(ctx.dest, os.readlink(os.path.join(ctx.dest, 'last-backup'))), ctx.must)


def run(tier, report):
    q = tier == 'quick'
    cases = []
    for name, script in SCRIPTS.items():
        for p in placements(len(script), 0, NGAPS - 1):
            cases.append((name, p, 1, None))
    # round 2: incremental backup; operations before the second backup (-1) or in its gaps
    for name in (('add-pack-clean-direct',) if q else tuple(SCRIPTS)):
        for same in (True, False):
            for p in placements(len(SCRIPTS[name]), -1, NGAPS - 1):
                if q and sum(1 for g in p if g >= 0) > 2:
                    continue
                cases.append((name, p, 2, same))
    res = pmap(_placement_case, cases, progress='C15 placements' if len(cases) > 600 else None)
    completed = failed = 0
    for case, r in zip(cases, res):
        if r['completed']:
            completed += 1
        else:
            failed += 1
        seen = set()
        for clause, detail in r['viol']:
            if clause in seen:
                continue
            seen.add(clause)
            name, p, rnd, same = case
            fp = {'engine': 'placements', 'clause': clause, 'round': rnd, 'same_second_as_previous_index': same}
            report.add_violation(Violation('C15', 'placements', clause, {'script': name, 'placement': list(p), 'round': rnd, 'same_second': same},
                                           f'script {name} placement {p} round {rnd} same_second={same}: {detail}', fp))
    cov = report.coverage
    cov['states'] = len(cases)
    cov['transitions'] = len(cases) * (NGAPS + 4)
    cov['traces_validated_against_impl'] = len(cases)
    cov['placements_executed'] = len(cases)
    cov['backups_completed'] = completed
    cov['backups_failed_with_BackupError'] = failed
    cov['exhaustive'] = True
    if not report.violations:
        # backup and client as real threads: the client script is pre-emptible at each of its visible I/O calls, the backup at its gaps
        iolayer.install()
        from ..sched import register
        from .. import common
        names = ('perpack-add-perpack-clean', 'direct-batch-of-three') if q else tuple(THREAD_SCRIPTS)
        bound = 1 if q else 2
        hs = [BackupHarness(n) for n in names]
        for h in hs:
            register(h)
        common.shutdown_pool()
        per = {}
        for h in hs:
            r = explore(h, bound, max_exec=60000)
            per[h.name] = {'bound': bound, 'executions': r['executions'], 'outcomes': dict(r['outcomes']), 'capped': r['capped']}
            cov['traces_validated_against_impl'] += r['executions']
            cov['states'] += r['executions']
            seen = set()
            for prefix, trace, clause, detail in r['violations']:
                if clause in seen:
                    continue
                seen.add(clause)
                report.add_violation(Violation('C15', 'sched', clause, {'script': h.script_name, 'choices': prefix, 'trace': trace},
                                               f'{h.name}: schedule {prefix}: {detail}', {'engine': 'sched', 'clause': clause}))
            cov['exhaustive'] = cov['exhaustive'] and not r['capped']
        cov['threaded_harnesses'] = per
    cov['samples'] = [{'script': c[0], 'placement': list(c[1]), 'round': c[2], 'same_second': c[3]} for c in (cases[0], cases[len(cases) // 2], cases[-1])]
    cov['rule'] = ('every non-decreasing placement of the client operations of each script over the 6 gaps of the backup (round 1) and over '
                   '{between the backups} + 6 gaps of an incremental backup x both answers for the index modification second (round 2); '
                   'a state = one complete placement executed with the real rsync/sqlite3/mv')
    report.assumptions += ['local destinations only; rsync 3.2.7 itself is trusted; concurrent repack/delete are excluded by the documentation',
                           'client operations are atomic in the quick tier; the copy of one directory by one rsync call is one step']
    if completed == 0:
        report.notes.append('VACUOUS: no backup completed')


def replay(case):
    if 'placement' in case:
        r = _placement_case((case['script'], tuple(case['placement']), case['round'], case['same_second']))
        return r['viol']
    from ..sched import execute
    iolayer.install()
    return execute(BackupHarness(case['script']), case['choices'])['viol']
