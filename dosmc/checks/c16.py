"""C16: bulk operations do not depend on batch size or internal lookup strategy.  Engine E5 (complete lattices).

(i)   A container holding keys in every form {loose, packed, packed+compressed, both, second pack} plus a missing key; ALL
      request sequences up to length 4 (quick: 3) over those 6 keys (orders and repeats included) x _IN_SQL_MAX_LENGTH in
      {1, 2, 3, 950} x _MAX_CHUNK_ITERATE_LENGTH in {0, 1, 2, 5, 9500} (set on the handle instance) x {has_objects,
      get_objects_meta (both skip modes), get_objects_content (both), get_objects_stream_and_meta, delete_objects};
      pack_all_loose / clean_storage / import_objects under the same threshold grid.
(ii)  The real thresholds: request sizes {949, 950, 951, 9499, 9500, 9501} against containers with {999, 1000, 1001, 2001}
      packed objects (1000-row paging of list_all_objects and of the no_holes listing).
(iii) The helpers: ALL pairs of sorted-unique sequences over a 6-element universe (4096) for detect_where_sorted (with and
      without left_key) and merge_sorted against set algebra; EVERY non-sorted or non-unique sequence up to length 4 over
      4 elements on either side against every sorted partner must raise ValueError; chunk_iterator for all
      (length <= 12, size <= 5).
Oracle: the bulk result equals the single-key operation applied to each distinct requested key (each reported exactly
once; missing keys reported or skipped as asked); helpers equal Python set algebra.
"""
import hashlib
import itertools
import os

from disk_objectstore import Container
from disk_objectstore.container import ObjectType
from disk_objectstore.exceptions import NotExistent
from disk_objectstore.utils import Location, chunk_iterator, detect_where_sorted, merge_sorted

from ..common import fresh_dir, maybe_collect, pmap, rmtree
from ..rawread import RawState
from ..report import Violation

LEVEL = 'model_checking'

H = lambda b: hashlib.sha256(b).hexdigest()
CONT = {'loose': b'L' * 9, 'packed': b'P' * 11, 'compressed': b'C' * 40, 'both': b'B' * 7, 'pack2': b'2' * 30, 'missing': b'never stored'}
NAMES = list(CONT)
KEY = {n: H(b) for n, b in CONT.items()}


def guarded(fn):
    """An exception escaping the library inside a case is a finding about that case, not a harness error."""
    import functools
    import traceback

    @functools.wraps(fn)
    def wrapper(arg):
        try:
            return fn(arg)
        except Exception as exc:  # pylint: disable=broad-except
            tb = [f for f in traceback.extract_tb(exc.__traceback__) if 'disk_objectstore' in f.filename]
            where = f' at {os.path.basename(tb[-1].filename)}:{tb[-1].lineno}' if tb else ''
            if not tb:
                raise
            return 1, [('exception', f'{fn.__name__}{arg if len(repr(arg)) < 200 else ""}: {type(exc).__name__}: {exc}{where}')]
    return wrapper


def build(root, in_sql, chunk_iter):
    c = Container(root)
    c.init_container(pack_size_target=45)
    c.add_objects_to_pack([CONT['packed']])
    c.add_objects_to_pack([CONT['compressed']], compress=True)      # pack 0 now above 45 bytes
    c.add_objects_to_pack([CONT['pack2']])                           # goes to pack 1
    c.add_objects_to_pack([CONT['both']])
    c.add_object(CONT['both'])
    c.add_object(CONT['loose'])
    c.close()
    c = Container(root)
    c._IN_SQL_MAX_LENGTH = in_sql                # pylint: disable=protected-access
    c._MAX_CHUNK_ITERATE_LENGTH = chunk_iter     # pylint: disable=protected-access
    return c


def single(c, n):
    """Reference answers of the single-key API for key name n."""
    k = KEY[n]
    try:
        content = c.get_object_content(k)
        meta = c.get_object_meta(k)
        return {'has': c.has_object(k), 'content': content, 'size': meta.size, 'type': meta.type}
    except NotExistent:
        return {'has': c.has_object(k), 'content': None, 'size': None, 'type': ObjectType.MISSING}


@guarded
def _bulk_case(arg):
    in_sql, chunk_iter, maxlen = arg
    d = fresh_dir('c16')
    probs = []
    n = 0
    try:
        ref_c = build(os.path.join(d, 'ref'), 950, 9500)
        ref = {name: single(ref_c, name) for name in NAMES}
        ref_c.close()
        if ref['missing']['has'] or not all(ref[x]['has'] and ref[x]['content'] == CONT[x] for x in NAMES if x != 'missing'):
            return 0, [('reference', f'single-key API disagrees with the stored contents: {ref}')]
        c = build(os.path.join(d, 'c'), in_sql, chunk_iter)
        try:
            for ln in range(maxlen + 1):
                for seq in itertools.product(NAMES, repeat=ln):
                    n += 1
                    maybe_collect(200)
                    req = [KEY[x] for x in seq]
                    distinct = list(dict.fromkeys(seq))
                    tag = f'IN={in_sql} SCAN>{chunk_iter} request {list(seq)}: '
                    got = c.has_objects(req)
                    if got != [ref[x]['has'] for x in seq]:
                        probs.append(('has_objects', tag + f'{got}'))
                    for skip in (True, False):
                        metas = list(c.get_objects_meta(req, skip_if_missing=skip))
                        exp = sorted(KEY[x] for x in distinct if not (skip and x == 'missing'))
                        if sorted(k for k, _ in metas) != exp:
                            probs.append(('get_objects_meta', tag + f'skip={skip}: reported {[NAMES[list(KEY.values()).index(k)] for k, _ in metas]}'))
                        for k, m in metas:
                            x = NAMES[list(KEY.values()).index(k)]
                            if m.size != ref[x]['size'] or m.type != ref[x]['type']:
                                probs.append(('get_objects_meta', tag + f'{x}: {m}'))
                        cont = c.get_objects_content(req, skip_if_missing=skip)
                        expc = {KEY[x]: ref[x]['content'] for x in distinct if not (skip and x == 'missing')}
                        if cont != expc:
                            probs.append(('get_objects_content', tag + f'skip={skip}: keys {sorted(k[:6] for k in cont)} expected {sorted(k[:6] for k in expc)}'))
                        with c.get_objects_stream_and_meta(req, skip_if_missing=skip) as trip:
                            seen = []
                            for k, s, m in trip:
                                seen.append(k)
                                x = NAMES[list(KEY.values()).index(k)]
                                data = s.read() if s is not None else None
                                if data != ref[x]['content'] or m.size != ref[x]['size']:
                                    probs.append(('get_objects_stream_and_meta', tag + f'{x}: read {data!r}'))
                            if sorted(seen) != exp:
                                probs.append(('get_objects_stream_and_meta', tag + f'skip={skip}: {len(seen)} triplets ({len(set(seen))} distinct) for {len(exp)} expected'))
                    if len(probs) > 6:
                        return n, probs
        finally:
            c.close()
        return n, probs
    finally:
        rmtree(d)


@guarded
def _delete_case(arg):
    in_sql, chunk_iter, seqs = arg
    probs = []
    for seq in seqs:
        d = fresh_dir('c16d')
        try:
            c = build(os.path.join(d, 'c'), in_sql, chunk_iter)
            try:
                r = c.delete_objects([KEY[x] for x in seq])
                exp = sorted({KEY[x] for x in seq if x != 'missing'})
                tag = f'IN={in_sql} SCAN>{chunk_iter} delete {list(seq)}: '
                if sorted(r) != exp:
                    probs.append(('delete_objects-return', tag + f'returned {len(r)} keys ({len(set(r))} distinct), expected {len(exp)}'))
                c2 = Container(os.path.join(d, 'c'))
                left = sorted(c2.list_all_objects())
                c2.close()
                exp_left = sorted(KEY[x] for x in NAMES if x != 'missing' and x not in seq)
                if left != exp_left:
                    probs.append(('delete_objects-effect', tag + f'{len(left)} objects left, expected {len(exp_left)}'))
                raw = RawState(os.path.join(d, 'c'))
                if sorted(raw.present_keys()) != exp_left:
                    probs.append(('delete_objects-effect', tag + f'on disk {len(raw.present_keys())} objects left, expected {len(exp_left)}'))
            finally:
                c.close()
        finally:
            rmtree(d)
        if len(probs) > 4:
            break
    return len(seqs), probs


@guarded
def _maint_case(arg):
    """pack_all_loose / clean_storage / import_objects under lowered thresholds == the obvious result."""
    in_sql, chunk_iter = arg
    d = fresh_dir('c16m')
    probs = []
    try:
        c = build(os.path.join(d, 'c'), in_sql, chunk_iter)
        extra = [b'x%d' % i * (i + 1) for i in range(5)]
        ek = [c.add_object(x) for x in extra]
        c.pack_all_loose()
        raw = RawState(os.path.join(d, 'c'))
        exp_packed = {KEY[x] for x in NAMES if x != 'missing'} | set(ek)
        if {r.hashkey for r in raw.rows} != exp_packed or len(raw.rows) != len(exp_packed):
            probs.append(('pack_all_loose', f'IN={in_sql} SCAN>{chunk_iter}: {len(raw.rows)} rows, expected {len(exp_packed)}'))
        c.clean_storage()
        raw = RawState(os.path.join(d, 'c'))
        if raw.loose:
            probs.append(('clean_storage', f'IN={in_sql} SCAN>{chunk_iter}: {len(raw.loose)} loose files left although all are packed'))
        dst = Container(os.path.join(d, 'dst'))
        dst.init_container()
        dst._IN_SQL_MAX_LENGTH = in_sql
        dst._MAX_CHUNK_ITERATE_LENGTH = chunk_iter
        dst.add_object(extra[0])
        req = sorted(exp_packed) + [KEY['missing']] + ek[:2]
        mapping = dst.import_objects(req, c)
        got = sorted(dst.list_all_objects())
        if got != sorted(exp_packed) or any(mapping.get(k, k) != k for k in req):
            probs.append(('import_objects', f'IN={in_sql} SCAN>{chunk_iter}: destination holds {len(got)} objects, expected {len(exp_packed)}'))
        rows = RawState(os.path.join(d, 'dst')).rows
        if len({r.hashkey for r in rows}) != len(rows) or H(extra[0]) in {r.hashkey for r in rows}:
            probs.append(('import_objects', f'IN={in_sql} SCAN>{chunk_iter}: duplicate or needless rows in the destination'))
        dst.close()
        c.close()
    finally:
        rmtree(d)
    return 3, probs


@guarded
def _real_threshold_case(arg):
    npacked, = arg
    d = fresh_dir('c16r')
    probs = []
    n = 0
    try:
        c = Container(os.path.join(d, 'c'))
        c.init_container()
        objs = [b'%06d' % i for i in range(npacked)]
        keys = c.add_objects_to_pack(objs)
        loose = [c.add_object(b'loose-%d' % i) for i in range(3)]
        listed = list(c.list_all_objects())
        if sorted(listed) != sorted(keys + loose):
            probs.append(('list_all_objects-paging', f'{npacked} packed + 3 loose: listed {len(listed)} ({len(set(listed))} distinct)'))
        # no_holes listing pages by 1000 rows: re-adding everything must not grow the pack nor add rows
        size_before = os.path.getsize(os.path.join(d, 'c', 'packs', '0'))
        c.add_objects_to_pack(objs[-3:] + objs[:3] + [b'one-new'], no_holes=True)
        rows = RawState(os.path.join(d, 'c')).rows
        if len(rows) != npacked + 1 or os.path.getsize(os.path.join(d, 'c', 'packs', '0')) != size_before + len(b'one-new'):
            probs.append(('no_holes-paging', f'{npacked} packed: after re-adding known objects {len(rows)} rows, pack grew by '
                                             f'{os.path.getsize(os.path.join(d, "c", "packs", "0")) - size_before}'))
        allk = keys + loose
        for size in (949, 950, 951, 9499, 9500, 9501):
            n += 1
            absent = [H(b'absent-%d' % i) for i in range(max(0, size - len(allk)) + 5)]
            req = (allk + absent)[:size] if size > len(allk) else (absent[:5] + allk)[:size]
            present = set(allk)
            got = c.has_objects(req)
            if got != [k in present for k in req]:
                probs.append(('has_objects-threshold', f'{npacked} packed, request of {size}: {sum(got)} reported present, expected {sum(k in present for k in req)}'))
            metas = [k for k, _ in c.get_objects_meta(req, skip_if_missing=False)]
            if sorted(metas) != sorted(set(req)):
                probs.append(('get_objects_meta-threshold', f'{npacked} packed, request of {size}: {len(metas)} metas ({len(set(metas))} distinct) for {len(set(req))} keys'))
            cont = c.get_objects_content(req)
            if set(cont) != set(req) & present:
                probs.append(('get_objects_content-threshold', f'{npacked} packed, request of {size}: {len(cont)} contents for {len(set(req) & present)} present keys'))
        c.close()
    finally:
        rmtree(d)
    return n + 2, probs


@guarded
def _helpers(_):
    probs = []
    n = 0
    U = list(range(6))
    subsets = [[x for x in U if m >> x & 1] for m in range(64)]
    for left in subsets:
        for right in subsets:
            n += 1
            exp = {}
            for x in left:
                exp[x] = Location.BOTH if x in right else Location.LEFTONLY
            for x in right:
                exp.setdefault(x, Location.RIGHTONLY)
            got = list(detect_where_sorted(left, right))
            if sorted(got) != sorted(exp.items(), key=lambda t: t[0]) and dict(got) != exp or len(got) != len(exp):
                probs.append(('detect_where_sorted', f'{left} vs {right}: {got}'))
            got2 = list(detect_where_sorted([(str(x), x) for x in left], right, left_key=lambda t: t[1]))
            norm = [((t[1] if isinstance(t, tuple) else t), w) for t, w in got2]
            if dict(norm) != exp or len(norm) != len(exp):
                probs.append(('detect_where_sorted-left_key', f'{left} vs {right}: {got2}'))
            for t, w in got2:
                if w in (Location.BOTH, Location.LEFTONLY) and not isinstance(t, tuple):
                    probs.append(('detect_where_sorted-left_key', f'{left} vs {right}: item for {w} is not the left element: {t}'))
            m = list(merge_sorted(left, right))
            if m != sorted(set(left) | set(right)):
                probs.append(('merge_sorted', f'{left} vs {right}: {m}'))
    # unsorted / non-unique input must be rejected
    bad = []
    for ln in range(2, 5):
        for seq in itertools.product(range(4), repeat=ln):
            if any(seq[i] >= seq[i + 1] for i in range(ln - 1)):
                bad.append(list(seq))
    good = [[x for x in range(4) if m >> x & 1] for m in range(16)]
    for b in bad:
        for g in good:
            for side in ('left', 'right'):
                n += 1
                try:
                    list(detect_where_sorted(b, g) if side == 'left' else detect_where_sorted(g, b))
                    probs.append(('unsorted-accepted', f'{side}={b} against {g}: no ValueError'))
                except ValueError:
                    pass
                if len(probs) > 8:
                    return n, probs
    for ln in range(13):
        for size in range(1, 6):
            n += 1
            got = list(chunk_iterator(range(ln), size))
            flat = [x for ch in got for x in ch]
            if flat != list(range(ln)) or any(len(ch) != size for ch in got[:-1]) or any(not 0 < len(ch) <= size for ch in got):
                probs.append(('chunk_iterator', f'len {ln} size {size}: {got}'))
    return n, probs[:8]


def run(tier, report):
    q = tier == 'quick'
    maxlen = 3 if q else 4
    grid = [(a, b) for a in (1, 2, 3, 950) for b in (0, 1, 2, 5, 9500)]
    total = 0
    parts = {}

    def take(name, cases, results, key=lambda c: c):
        nonlocal total
        cnt = 0
        for case, (n, probs) in zip(cases, results):
            cnt += n
            seen = set()
            for clause, detail in probs:
                if clause in seen:
                    continue
                seen.add(clause)
                report.add_violation(Violation('C16', 'grids', clause, {'part': name, 'case': key(case)}, detail,
                                               {'engine': 'grids', 'clause': clause}))
        parts[name] = cnt
        total += cnt

    cases = [(a, b, maxlen) for a, b in grid]
    take('bulk-reads', cases, pmap(_bulk_case, cases))
    seqs = [s for ln in range(0, (2 if q else 3) + 1) for s in itertools.product(NAMES, repeat=ln)]
    dcases = []
    for a, b in grid:
        for i in range(0, len(seqs), 40):
            dcases.append((a, b, seqs[i:i + 40]))
    take('delete', dcases, pmap(_delete_case, dcases), key=lambda c: [c[0], c[1], [list(s) for s in c[2]]])
    take('maintenance', grid, pmap(_maint_case, grid))
    rcases = [(n,) for n in (999, 1000, 1001, 2001)]
    take('real-thresholds', rcases, pmap(_real_threshold_case, rcases))
    take('helpers', [0], pmap(_helpers, [0]))
    cov = report.coverage
    cov['evaluations'] = total
    cov['distinct_nontrivial'] = total
    cov['parts'] = parts
    cov['exhaustive'] = True
    cov['rule'] = ('complete enumeration of request sequences x threshold grid x bulk operation; of (container size x request size) around the '
                   'real thresholds; of all pairs of sorted-unique sequences / all unsorted sequences for the helpers; every case is distinct')
    cov['samples'] = [{'in_sql': 2, 'scan_above': 1, 'request': ['packed', 'missing', 'packed', 'loose'], 'op': 'get_objects_meta(skip_if_missing=False)'},
                      {'helper': 'detect_where_sorted', 'left': [0, 2, 3], 'right': [1, 2, 5]}]
    report.assumptions += ['thresholds are lowered through instance attributes of the handle (the code reads them via self)',
                           'request sequences up to length 3 (quick) / 4 (thorough) over 6 keys']


def replay(case):
    part, c = case['part'], case['case']
    if part == 'bulk-reads':
        return _bulk_case(tuple(c))[1]
    if part == 'delete':
        return _delete_case((c[0], c[1], [tuple(s) for s in c[2]]))[1]
    if part == 'maintenance':
        return _maint_case(tuple(c))[1]
    if part == 'real-thresholds':
        return _real_threshold_case(tuple(c))[1]
    return _helpers(0)[1]
