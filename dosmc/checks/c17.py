"""C17: an I/O error in the middle of an operation leaves the store intact.  Engine E3 (crashx), single faults.

Enumerated: for every scenario, every faultable call (open, write, flush, truncate, fsync, rename/replace/link/unlink/
remove/mkdir, close of a written file, SQL commit) x fault kind (EIO with no effect; for writes additionally "half written,
then ENOSPC"; for opens additionally PermissionError/EACCES;
OperationalError for commits): the scenario is re-executed from scratch with exactly that call failing.
Oracle: the call returns normally (then the return value is right and the final state is the model's) or raises; in
both cases the raw state and a fresh handle satisfy the C05 oracle (nothing stored before is lost, no partial object
under a key, no wrong bytes), the faulted handle never returns wrong bytes, and - except after an interrupted repack -
a new handle (stale lock files removed) reruns the operation to the model's final state.
"""
import os

from ..common import ExecTimeout, pmap
from ..crashx import check_image, count_faultable, run_fault, scenarios, _build
from ..rawread import RawState
from ..report import Violation
from ..views import battery
from ..world import op_fingerprint

from disk_objectstore import Container
from disk_objectstore.exceptions import NotExistent

LEVEL = 'fault_enumeration'


def _one(arg):
    sc, index, variant, label = arg[:4]
    order = arg[4] if len(arg) > 4 else 'clean-then-commit'
    viol = []
    probe_key = None
    try:
        w, res, fired, info = run_fault(sc, index, variant)
    except ExecTimeout as exc:
        return [('hang', f'fault {variant} at call #{index} [{label}]: {exc}')], 'hang'
    except RuntimeError as exc:
        return [('setup-failed', str(exc))], 'setup-failed'
    outcome = 'returned' if res.exc is None else type(res.exc).__name__
    try:
        if fired is None:
            return [('internal-no-fire', f'fault #{index} did not fire')], outcome
        if res.exc is None and not res.ok:
            viol.append((res.clause, f'operation returned normally under the fault but: {res.detail}'))
        content = info['content']
        if res.exc is None and res.ok and not info['damaged']:
            # "either completes correctly or raises": it returned normally, so the store must now be what a fault-free run gives
            raw_now = RawState(w.root)
            for k in w.model.present():
                if raw_now.object_bytes(k) != content[k]:
                    viol.append(('returned-normally-but-incomplete', f'the operation returned normally under the fault but object {k[:10]} '
                                                                     f'is {"missing" if raw_now.object_bytes(k) is None else "wrong"} afterwards'))
        # 1. the faulted handle may raise, but never returns wrong bytes / reports a stored object absent
        def faulted_handle_reads():
            # keys the failed operation was adding come first: a lookup of an absent key makes the handle reload its session,
            # which would hide rows the failed operation left pending
            for k in sorted(info['keys'], key=lambda x: (x not in info['maybe'], x not in info['must'])):
                if k in info['damaged']:
                    continue
                try:
                    b = w.h.get_object_content(k)
                    if b != content[k]:
                        viol.append(('faulted-handle-wrong-bytes', f'{k[:10]} read back as {b[:20]!r} through the faulted handle'))
                except NotExistent:
                    if k in info['must']:
                        viol.append(('faulted-handle-lost', f'faulted handle reports stored object {k[:10]} as absent'))
                except Exception:  # pylint: disable=broad-except
                    pass      # loud failure of the faulted handle is allowed
        if order == 'clean-then-commit':
            faulted_handle_reads()          # in the other order the reads come after the follow-up operations
        raw_mid = RawState(w.root)
        interrupted_repack = sc.op[0] in ('repack', 'repack_pack') and (
            any(r.pack_id == -1 for r in raw_mid.rows) or '-1' in raw_mid.packs and any(r.pack_id == -1 for r in raw_mid.rows)
            or any(str(r.pack_id) not in raw_mid.packs for r in raw_mid.rows))
        # 1b / 1c. the handle stays in use after the failed operation, in both orders (one order per execution):
        #   - ordinary maintenance: clean_storage() only ever removes loose copies of objects whose index entry is committed;
        #   - an unrelated operation that commits (a direct-to-pack write) must not publish anything the failed operation left
        #     pending in the handle's session.
        def follow_clean():
            try:
                w.h.clean_storage()
            except Exception:  # pylint: disable=broad-except
                pass

        def follow_commit():
            nonlocal probe_key
            probe = b'post-fault-probe-object'
            from ..common import H
            pk = H(probe, w.config['hash_type'])
            probe_key = pk
            w.model.content[pk] = probe
            info['model_before'].content[pk] = probe
            info['content'][pk] = probe
            info['keys'].append(pk)
            info['maybe'] = set(info['maybe']) | {pk}
            try:
                w.h.add_objects_to_pack([probe])
            except Exception:  # pylint: disable=broad-except
                pass

        if res.exc is not None and not interrupted_repack:
            for step in ((follow_clean, follow_commit) if order == 'clean-then-commit' else (follow_commit, follow_clean)):
                step()
        if order != 'clean-then-commit':
            faulted_handle_reads()
        for hh in w.handles:
            hh.close()
        # 2. raw state + fresh handle: the C05 oracle
        for clause, detail in check_image(w.root, info):
            viol.append((clause, detail))
        # (the probe object of step 1c has served its purpose: take it out again so that the rerun is judged against the plain model)
        if probe_key is not None:
            try:
                c3 = Container(w.root)
                try:
                    c3.delete_objects([probe_key])
                finally:
                    c3.close()
            except Exception:  # pylint: disable=broad-except
                pass
            for d_ in (info['content'], w.model.content, info['model_before'].content):
                d_.pop(probe_key, None)
            if probe_key in info['keys']:
                info['keys'].remove(probe_key)
        # 3. rerun to the normal result with a new handle
        raw = RawState(w.root)
        refs_repack = any(r.pack_id == -1 for r in raw.rows) or '-1' in raw.packs
        missing_pack = any(str(r.pack_id) not in raw.packs for r in raw.rows)
        if sc.op[0] in ('repack', 'repack_pack') and (refs_repack or missing_pack):
            outcome += '+repack-interrupted'
            if not viol:
                # The rerun of an interrupted repack need not succeed (manual repair), but the attempt must leave every object
                # where the index says: a new handle tries the same operation, refusing (raising) is fine.
                c2 = Container(w.root)
                try:
                    try:
                        if sc.op[0] == 'repack':
                            from disk_objectstore import CompressMode
                            c2.repack(CompressMode[sc.op[1]])
                        else:
                            from disk_objectstore import CompressMode
                            c2.repack_pack(str(sc.op[1]), CompressMode[sc.op[2]])
                        outcome += '+retry-returned'
                    except Exception:  # pylint: disable=broad-except
                        outcome += '+retry-refused'
                finally:
                    c2.close()
                for clause, detail in check_image(w.root, info):
                    viol.append(('after-repack-retry-' + clause, detail))
        elif not viol:
            for name in raw.pack_other:
                if name.endswith('.lock'):
                    os.remove(os.path.join(w.root, 'packs', name))
            # expected final state: the model of a fault-free run
            ref = _build(sc)
            try:
                ref.apply(sc.op)
                expect = ref.model
                w.handles = [Container(w.root)]
                w.cur = 0
                w.model = info['model_before']
                # the model of the faulted container: what is actually present (must/maybe semantics were checked above)
                present = RawState(w.root)
                w.model.loose = set(present.loose) & set(content)
                w.model.packed = {r.hashkey for r in present.rows}
                r2 = w.apply(sc.op)
                if not r2.ok and not (sc.op[0] == 'delete' and r2.clause == 'delete-return'):
                    viol.append(('rerun-failed', f'rerun after the fault cleared: {r2.clause}: {r2.detail}'))
                else:
                    raw2 = RawState(w.root)
                    got = {k for k in content if raw2.object_bytes(k) == content[k]} - {probe_key}
                    if got != expect.present() and not info['damaged']:
                        viol.append(('rerun-state', f'after rerun the container holds {sorted(x[:6] for x in got)} expected '
                                                    f'{sorted(x[:6] for x in expect.present())}'))
                    fresh = Container(w.root)
                    try:
                        w.model.loose, w.model.packed = set(raw2.loose) & set(content), {r.hashkey for r in raw2.rows}
                        if not info['damaged']:
                            for clause, detail in battery(fresh, w.model, raw2, tag='after rerun: '):
                                viol.append(('rerun-' + clause, detail))
                    finally:
                        fresh.close()
            finally:
                ref.close()
    finally:
        w.close()
    return [(c, f'{sc.name}: {variant} at call #{index} [{label}] ({outcome}): {d}') for c, d in viol], outcome


def _count(sc):
    try:
        return count_faultable(sc)
    except (ExecTimeout, RuntimeError):
        return ['<setup or dry run failed>']


def run(tier, report):
    scs = scenarios(tier)
    report.assumptions += ['single faults only; faults inside SQLite and read-side faults other than open are not injected',
                           'a fault is injected at the Python call boundary of the interposed call (write = buffered write call)']
    labels = pmap(_count, scs)
    tasks = []
    for sc, labs in zip(scs, labels):
        for i, lab in enumerate(labs):
            if sc.fault_kinds is not None and lab.split(':')[0] not in sc.fault_kinds:
                continue          # a scenario with a very long call list: only the listed call kinds are faulted
            for order in ('clean-then-commit', 'commit-then-clean'):
                tasks.append((sc, i, 'eio', lab, order))
            if lab.startswith('f.write'):
                tasks.append((sc, i, 'partial', lab, 'commit-then-clean'))
            if lab.startswith('open.'):
                tasks.append((sc, i, 'eacces', lab, 'clean-then-commit'))      # an OSError of another kind: PermissionError (EACCES)
    results = pmap(_one, tasks, progress='C17 faults' if len(tasks) > 500 else None)
    distinct = set()
    outcomes = {}
    samples = []
    for (sc, i, variant, lab, order), (viol, outcome) in zip(tasks, results):
        distinct.add((sc.name.split('@')[0], lab.split(':')[0], variant))
        outcomes[outcome] = outcomes.get(outcome, 0) + 1
        if len(samples) < 4 and i == 3:
            samples.append({'scenario': sc.key(), 'fault_index': i, 'call': lab, 'variant': variant, 'follow_up': order, 'outcome': outcome})
        seen = set()
        for clause, detail in viol:
            if clause in seen:
                continue
            seen.add(clause)
            fp = {'engine': 'crashx-fault', 'clause': clause, 'scenario': sc.name.split('@')[0], 'call': lab.split(':')[0], 'variant': variant}
            fp.update(op_fingerprint(sc.op))
            report.add_violation(Violation('C17', 'crashx-fault', clause,
                                           {'scenario': sc.key(), 'fault_index': i, 'variant': variant, 'call': lab, 'order': order}, detail, fp))
    cov = report.coverage
    cov['evaluations'] = len(tasks)
    cov['distinct_nontrivial'] = len(distinct)
    cov['scenarios'] = len(scs)
    cov['outcomes'] = outcomes
    cov['exhaustive'] = True
    cov['rule'] = ('every faultable call of every scenario x fault kind, one fault per execution; distinct = distinct (operation '
                   'variant, call kind, fault kind); non-trivial = the fault fired')
    cov['samples'] = samples


def replay(case):
    from ..crashx import Scenario, universe5
    from .c05 import _t
    s = case['scenario']
    sc = Scenario(s['name'], [_t(o) for o in s['setup']], _t(s['op']), s.get('config'), universe=universe5(), thresholds=tuple(s['thresholds']) if s.get('thresholds') else None)
    return _one((sc, case['fault_index'], case['variant'], case['call'], case.get('order', 'clean-then-commit')))[0]
