"""C18: bounded resources - no descriptor leaks, one open file, chunked I/O.  Engine E1 monitor + E5 grid.

(1) Descriptor census (model checking over histories): after every transition of a bounded history search the
    descriptors of this process that resolve inside the container folder are counted from /proc/self/fd: none may refer
    to a non-SQLite file between operations; repeating the operation two more times must not increase the number of
    SQLite descriptors (no accumulation with the number of operations); after close() of every handle the count is 0.
(2) Open-file monitor (exhaustive over a small lattice of containers and request shapes): during
    get_objects_stream_and_meta / get_objects_content over all keys at most one pack or loose file is open at any
    time; LazyOpener inputs of add_streamed_objects_to_pack(open_streams=True) are open only one at a time and closed
    afterwards.
(4) Descriptors after a failed operation: for six operations every single I/O fault is injected; after close() the count must be 0.
(3) Memory (enumeration with a monitor, level "exploration"): for object sizes 1..16 (48) MiB x every streaming path
    the tracemalloc peak must stay below a fixed budget of a few chunk sizes, independent of the size.
"""
import io
import os
import tracemalloc

from disk_objectstore import Container, CompressMode
from disk_objectstore.utils import LazyOpener

from .. import iolayer
from ..common import H, REAL, fresh_dir, pmap, rmtree
from ..report import Violation
from ..seqx import SeqSpec, explore
from ..world import core_alphabet, ABSENT_IDX
from .c02 import _tuplify

LEVEL = 'model_checking'


def census(root):
    """(sqlite descriptors, other descriptors) of this process that resolve inside `root`."""
    sq, other = [], []
    for name in REAL['os.listdir']('/proc/self/fd'):
        try:
            target = REAL['os.readlink'](f'/proc/self/fd/{name}')
        except OSError:
            continue
        if target == root or target.startswith(root + '/'):
            (sq if os.path.basename(target).split(' ')[0].startswith('packs.idx') else other).append(target[len(root):])
    return sq, other


class Spec(SeqSpec):
    prop = 'C18'

    def __init__(self, tier):
        self.tier = tier
        self.depth = 2 if tier == 'quick' else 3
        self.max_variants = 1 if tier == 'quick' else 2

    def roots(self):
        r = [('empty', {}, []), ('empty-flat-loose', {'loose_prefix_len': 0}, [])]
        if self.tier != 'quick':
            r.append(('empty-sha1-p3-bigpack', {'hash_type': 'sha1', 'loose_prefix_len': 3, 'pack_size_target': 4 * 1024 ** 3}, []))
        return r

    def core_ops(self, root_name):
        return core_alphabet() + [('q', 'has'), ('q', 'bulk'), ('q', 'list'), ('q', 'streams'), ('loosen', ABSENT_IDX)]

    def variant_ops(self, root_name):
        return [('topack', (1, 1, 3), True, True, False), ('stopack', (1, 2), False, False, True, True),
                ('pack', 'YES', True, True), ('clean', True), ('repack', 'YES'), ('repack_pack', 0, 'NO'),
                ('import', (0, 1, 2, 3, ABSENT_IDX), False, 1, 'other'), ('import', (1, 3), True, 13, 'same'),
                ('q', 'get', 1), ('q', 'get', ABSENT_IDX), ('q', 'stream', 3), ('q', 'meta'), ('q', 'count'), ('reinit',)]

    def step_check(self, world, before, after, res, hist, model_before):
        probs = []
        sq1, other = census(world.root)
        if other:
            probs.append(('fd-open-between-ops', f'after {res.op[0]} the process still holds {other}'))
        if res.op[0] not in ('reopen',):
            for _ in range(2):
                world.apply(res.op)
            sq3, other3 = census(world.root)
            if len(sq3) > len(sq1):
                probs.append(('fd-accumulate', f'repeating {res.op[0]} twice raised the SQLite descriptors from {len(sq1)} to {len(sq3)}'))
            if other3:
                probs.append(('fd-open-between-ops', f'after repeating {res.op[0]} the process still holds {other3}'))
        for h in world.handles:
            h.close()
        for s in world.sources.values():
            s.close()
        sq, other = census(world.root)
        if sq or other:
            probs.append(('fd-after-close', f'after close() the process still holds {sq + other}'))
        return probs


# --------------------------------------------------------------------------------------------------------------------
# (2) open-file monitor

class _OpenMonitor(iolayer.Consumer):
    def __init__(self):
        self.open = {}
        self.max_store = 0
        self.max_inputs = 0
        self.trace = []

    def after(self, ev, result):
        if ev.kind in ('open.r', 'open.w'):
            self.open[id(result)] = ev.path
            self._gauge()

    def before(self, ev):
        if ev.kind.startswith('f.close') and ev.fobj is not None:
            self.open.pop(id(ev.fobj), None)

    def _gauge(self):
        store = [p for p in self.open.values() if p.startswith(('c/packs/', 'c/loose/')) and not p.endswith('.lock')]
        inputs = [p for p in self.open.values() if p.startswith('inputs/')]
        self.max_store = max(self.max_store, len(store))
        self.max_inputs = max(self.max_inputs, len(inputs))

    def now(self):
        return ([p for p in self.open.values() if p.startswith(('c/packs/', 'c/loose/')) and not p.endswith('.lock')],
                [p for p in self.open.values() if p.startswith('inputs/')])


def _openfile_case(arg):
    target, nloose, compress, chunked, order = arg
    d = fresh_dir('c18')
    root = os.path.join(d, 'c')
    viol = []
    c = Container(root)
    try:
        c.init_container(pack_size_target=target)
        contents = [b'obj-%d-' % i + bytes([65 + i]) * (10 + 3 * i) for i in range(6)]
        keys = c.add_objects_to_pack(contents[:2], compress=compress)
        keys += c.add_objects_to_pack(contents[2:4], compress=not compress)
        for x in contents[4:4 + nloose]:
            keys.append(c.add_object(x))
        inputs = os.path.join(d, 'inputs')
        os.makedirs(inputs)
        paths = []
        for i in range(3):
            p = os.path.join(inputs, f'in{i}')
            with REAL['open'](p, 'wb') as fh:
                fh.write(b'input-%d' % i * 5)
            paths.append(p)
        req = list(keys) + [H(b'absent')]
        if order == 'reversed':
            req.reverse()
        mon = _OpenMonitor()
        iolayer.activate(d, mon)
        iolayer.set_actor('main')
        try:
            with c.get_objects_stream_and_meta(req) as trip:
                for k, stream, meta in trip:
                    store, _ = mon.now()
                    if len(store) > 1:
                        viol.append(('bulk-read-open-files', f'{len(store)} pack/loose files open at a yield: {store}'))
                    if chunked:
                        while stream.read(7):
                            pass
                    else:
                        stream.read()
            store, _ = mon.now()
            if store:
                viol.append(('bulk-read-left-open', f'after the bulk read {store} still open'))
            c.get_objects_content(req)
            store, _ = mon.now()
            if store or mon.max_store > 1:
                viol.append(('bulk-read-open-files', f'get_objects_content: max simultaneously open {mon.max_store}, left open {store}'))
            from pathlib import Path
            lazy = [LazyOpener(Path(p)) for p in paths]
            c.add_streamed_objects_to_pack(lazy, open_streams=True, compress=compress)
            _, inp = mon.now()
            if inp or mon.max_inputs > 1:
                viol.append(('lazy-input-open', f'LazyOpener inputs: max simultaneously open {mon.max_inputs}, left open {inp}'))
        finally:
            iolayer.set_actor(None)
            iolayer.deactivate()
    finally:
        c.close()
        rmtree(d)
    return viol


# --------------------------------------------------------------------------------------------------------------------
# (3) memory

class SynthStream:
    """Seekable synthetic stream of `size` incompressible (or zero) bytes that never holds more than one block."""
    _block = None

    def __init__(self, size, kind='random'):
        self.size = size
        self.pos = 0
        self.kind = kind
        if SynthStream._block is None:
            import hashlib
            out = bytearray()
            i = 0
            while len(out) < 1 << 20:
                out += hashlib.sha256(b'blk%d' % i).digest()
                i += 1
            SynthStream._block = bytes(out)
        self.mode = 'rb'
        self.closed = False

    def read(self, n=-1):
        if n is None or n < 0:
            n = self.size - self.pos
        n = min(n, self.size - self.pos)
        if n <= 0:
            return b''
        if self.kind == 'zeros':
            out = bytes(n)
        else:
            blk = SynthStream._block
            off = self.pos % len(blk)
            out = blk[off:off + n]
            while len(out) < n:
                out += blk[:n - len(out)]
        self.pos += len(out)
        return out

    def seek(self, t, w=0):
        self.pos = t if w == 0 else (self.pos + t if w == 1 else self.size + t)
        return self.pos

    def tell(self):
        return self.pos

    def seekable(self):
        return True


BUDGET = 8 * 1024 * 1024     # a few chunk sizes (512 KiB read chunks, zlib windows, SQLite page cache, Python overhead)


def _memory_case(arg):
    path, size_mib = arg
    size = size_mib << 20
    d = fresh_dir('c18m')
    root = os.path.join(d, 'c')
    c = Container(root)
    try:
        c.init_container()
        key = None
        prep = {'chunked-read-loose': ('loose', False), 'chunked-read-packed': ('pack', False), 'chunked-read-compressed': ('pack', True),
                'pack-NO': ('loose', False), 'pack-YES': ('loose', False), 'pack-AUTO': ('loose', False),
                'repack-KEEP': ('pack', False), 'repack-YES': ('pack', False), 'repack-NO': ('pack', True), 'validate': ('pack', True),
                'import-stream': ('src', True), 'loosen-compressed': ('pack', True), 'seek-compressed': ('pack', True)}
        if path in prep:
            where, comp = prep[path]
            if where == 'loose':
                key = c.add_streamed_object(SynthStream(size))
            elif where == 'pack':
                key = c.add_streamed_object_to_pack(SynthStream(size), compress=comp)
            if path == 'validate':
                c.add_streamed_object(SynthStream(size, 'zeros'))
        src = None
        if path == 'import-stream':
            src = Container(os.path.join(d, 'src'))
            src.init_container()
            key = src.add_streamed_object_to_pack(SynthStream(size), compress=True)
        many = []
        if path == 'import-many':
            # many objects of 256 KiB (total = the nominal size) imported with a memory budget of 1 MiB: the cache must be flushed
            src = Container(os.path.join(d, 'src'))
            src.init_container()
            for i in range(size_mib * 4):
                st = SynthStream(256 * 1024)
                st.pos = 0
                many.append(src.add_objects_to_pack([b'%06d' % i + st.read(256 * 1024 - 6)])[0])
        tracemalloc.start()
        tracemalloc.reset_peak()
        base = tracemalloc.get_traced_memory()[0]
        if path == 'add-streamed':
            c.add_streamed_object(SynthStream(size))
        elif path == 'add-streamed-to-pack':
            c.add_streamed_object_to_pack(SynthStream(size))
        elif path == 'add-streamed-to-pack-compress':
            c.add_streamed_object_to_pack(SynthStream(size), compress=True)
        elif path == 'add-streamed-to-pack-noholes':
            c.add_streamed_object_to_pack(SynthStream(size), no_holes=True)
        elif path.startswith('pack-'):
            c.pack_all_loose(compress=CompressMode[path.split('-')[1]])
        elif path.startswith('repack-'):
            c.repack(CompressMode[path.split('-')[1]])
        elif path == 'validate':
            assert c.validate().is_valid()
        elif path.startswith('chunked-read'):
            with c.get_object_stream(key) as s:
                while s.read(65536):
                    pass
        elif path == 'seek-compressed':
            with c.get_object_stream(key) as s:
                s.read(100)
                s.seek(size // 2)
                s.read(100)
                s.seek(10)
                s.read(100)
        elif path == 'loosen-compressed':
            c.loosen_object(key)
        elif path == 'import-stream':
            c.import_objects([key], src, target_memory_bytes=1 << 19)
        elif path == 'import-many':
            c.import_objects(many, src, target_memory_bytes=1 << 20)
        peak = tracemalloc.get_traced_memory()[1] - base
        tracemalloc.stop()
        if src is not None:
            src.close()
        return peak
    finally:
        c.close()
        rmtree(d)


def _count_faults(sc):
    from ..crashx import count_faultable
    return count_faultable(sc)


def _fault_census(arg):
    sc, index, label = arg
    from ..crashx import run_fault
    w, res, fired, info = run_fault(sc, index, 'eio')
    try:
        for h in w.handles:
            h.close()
        for s_ in w.sources.values():
            s_.close()
        sq, other = census(w.root)
        return sq + other
    finally:
        w.close()


MEM_PATHS = ['add-streamed', 'add-streamed-to-pack', 'add-streamed-to-pack-compress', 'add-streamed-to-pack-noholes', 'pack-NO', 'pack-YES',
             'pack-AUTO', 'repack-KEEP', 'repack-YES', 'repack-NO', 'validate', 'chunked-read-loose', 'chunked-read-packed',
             'chunked-read-compressed', 'seek-compressed', 'loosen-compressed', 'import-stream', 'import-many']


def run(tier, report):
    cov = report.coverage
    spec = Spec(tier)
    explore(spec, report)
    # (2)
    iolayer.install()
    cases = [(t, nl, comp, ch, order) for t in (30, 4 * 1024 ** 3) for nl in (0, 2) for comp in (False, True) for ch in (False, True)
             for order in ('given', 'reversed')]
    res = pmap(_openfile_case, cases)
    for case, viol in zip(cases, res):
        for clause, detail in viol[:2]:
            report.add_violation(Violation('C18', 'grids', clause, {'openfile_case': case}, f'{case}: {detail}', {'engine': 'grids', 'clause': clause}))
    cov['openfile_cases'] = len(cases)
    # (3)
    sizes = (1, 4, 16) if tier == 'quick' else (1, 4, 16, 48)
    mcases = [(p, s) for p in MEM_PATHS for s in sizes]
    peaks = pmap(_memory_case, mcases)
    table = {}
    for (p, s), peak in zip(mcases, peaks):
        table.setdefault(p, {})[f'{s}MiB'] = round(peak / 1048576, 2)
        if peak > BUDGET:
            report.add_violation(Violation('C18', 'grids', 'memory-grows', {'memory_case': [p, s]},
                                           f'{p} on a {s} MiB object: tracemalloc peak {peak / 1048576:.1f} MiB exceeds the fixed budget of {BUDGET >> 20} MiB',
                                           {'engine': 'grids', 'clause': 'memory-grows', 'path': p}))
    raw_peaks = {}
    for (p, s), peak in zip(mcases, peaks):
        raw_peaks.setdefault(p, {})[s] = peak
    for p, by in raw_peaks.items():
        lo, hi = by[min(by)], by[max(by)]
        if hi - lo > (1 << 20) + lo // 2 and hi <= BUDGET:
            report.add_violation(Violation('C18', 'grids', 'memory-grows', {'memory_case': [p, max(by)]},
                                           f'{p}: tracemalloc peak grows with the object size: {lo / 1048576:.1f} MiB at {min(by)} MiB, '
                                           f'{hi / 1048576:.1f} MiB at {max(by)} MiB', {'engine': 'grids', 'clause': 'memory-grows', 'path': p}))
    # (4) descriptors after a failed operation: for a few operations every single I/O fault is injected (as in C17); after closing the
    #     handle no descriptor inside the container may remain
    from ..crashx import count_faultable, scenarios
    fscs = [sc for sc in scenarios('quick') if sc.name in ('add-new@mixed', 'pack-NO-perpack1@mixed', 'topack-c1-nh1-tw0@mixed',
                                                            'repack-KEEP@mixed', 'import-same@mixed', 'loosen-packed@mixed')]
    labels = pmap(_count_faults, fscs)
    ftasks = [(sc, i, lab) for sc, labs in zip(fscs, labels) for i, lab in enumerate(labs)]
    fres = pmap(_fault_census, ftasks)
    for (sc, i, lab), left in zip(ftasks, fres):
        if left:
            report.add_violation(Violation('C18', 'crashx-fault', 'fd-after-close-after-fault', {'fault_case': [sc.name, i, lab]},
                                           f'{sc.name}: after an I/O error at call #{i} [{lab}] and close(), the process still holds {left}',
                                           {'engine': 'crashx-fault', 'clause': 'fd-after-close-after-fault', 'call': lab.split(':')[0]}))
    cov['fault_census_cases'] = len(ftasks)
    cov['memory_peaks_MiB'] = table
    cov['memory_cases'] = len(mcases)
    cov['traces_validated_against_impl'] = cov.get('traces_validated_against_impl', 0) + len(cases) + len(mcases)
    cov['rule'] = ('(1) BFS over histories with a /proc/self/fd census after every transition, after repeating it, and after close(); '
                   '(2) product of pack target x loose count x compression x read style x request order with an open-file monitor; '
                   '(3) streaming path x object size with a tracemalloc peak budget')
    report.assumptions += ['memory half: an enumeration with a monitor over sizes 1-16 (48) MiB, says nothing about sizes outside the lattice',
                           'descriptor census is taken with the garbage collector disabled (no help from finalisers)']


def replay(case):
    if 'history' in case:
        from ..seqx import replay_history
        return replay_history(Spec('thorough'), case['root'], [_tuplify(o) for o in case['history']])
    if 'openfile_case' in case:
        iolayer.install()
        return _openfile_case(tuple(case['openfile_case']))
    if 'fault_case' in case:
        from ..crashx import scenarios
        name, i, lab = case['fault_case']
        sc = [x for x in scenarios('quick') if x.name == name][0]
        left = _fault_census((sc, i, lab))
        return [('fd-after-close-after-fault', left)] if left else []
    p, s = case['memory_case']
    peak = _memory_case((p, s))
    return [('memory-grows', peak)] if peak > BUDGET else []
