"""Shared plumbing: scratch directories, seeds, process pool, small helpers."""
from __future__ import annotations

import atexit
import hashlib
import json
import os
import shutil
import sys
import time
import traceback
from concurrent.futures import ProcessPoolExecutor, as_completed
import multiprocessing as mp

VERIF_ROOT = os.path.dirname(os.path.dirname(os.path.abspath(__file__)))
NPROC = int(os.environ.get('DOSMC_NPROC', '0')) or min(16, os.cpu_count() or 4)

_SCRATCH_BASE = '/dev/shm' if os.path.isdir('/dev/shm') and os.access('/dev/shm', os.W_OK) else None
_my_scratch: str | None = None
_counter = 0

# originals, saved before any interposition is installed (harness I/O must bypass the interposition)
REAL = {
    'open': open,
    'os.listdir': os.listdir,
    'os.stat': os.stat,
    'os.remove': os.remove,
    'os.unlink': os.unlink,
    'os.rename': os.rename,
    'os.replace': os.replace,
    'os.link': os.link,
    'os.mkdir': os.mkdir,
    'os.makedirs': os.makedirs,
    'os.fsync': os.fsync,
    'os.open': os.open,
    'os.close': os.close,
    'os.fstat': os.fstat,
    'os.ftruncate': os.ftruncate,
    'os.truncate': os.truncate,
    'os.scandir': os.scandir,
    'os.rmdir': os.rmdir,
    'os.lstat': os.lstat,
    'os.readlink': os.readlink,
}


def seed() -> int:
    try:
        return int(os.environ.get('VERIF_SEED', '0'))
    except ValueError:
        return 0


def scratch_root() -> str:
    """Per-process scratch root (created lazily, removed at exit)."""
    global _my_scratch
    pid = os.getpid()
    if _my_scratch is None or not _my_scratch.endswith(f'-{pid}'):
        import tempfile
        base = _SCRATCH_BASE or tempfile.gettempdir()
        _my_scratch = os.path.join(base, f'dosmc-{pid}')
        shutil.rmtree(_my_scratch, ignore_errors=True)
        os.makedirs(_my_scratch, exist_ok=True)
        atexit.register(_cleanup, _my_scratch, pid)
    return _my_scratch


def _cleanup(path: str, pid: int) -> None:
    if os.getpid() == pid:
        shutil.rmtree(path, ignore_errors=True)


def fresh_dir(tag: str = 'w') -> str:
    """A new empty directory under this process' scratch root."""
    global _counter
    _counter += 1
    p = os.path.join(scratch_root(), f'{tag}{_counter}')
    os.makedirs(p)
    return p


def rmtree(path: str) -> None:
    shutil.rmtree(path, ignore_errors=True)


def sweep_stale_scratch() -> None:
    """Remove scratch roots of dead processes (left by killed runs)."""
    base = _SCRATCH_BASE
    if not base:
        return
    for name in os.listdir(base):
        if name.startswith('dosmc-'):
            try:
                pid = int(name.split('-')[1])
            except ValueError:
                continue
            if not os.path.exists(f'/proc/{pid}'):
                shutil.rmtree(os.path.join(base, name), ignore_errors=True)


def digest(obj) -> str:
    return hashlib.sha256(json.dumps(obj, sort_keys=True, default=repr).encode()).hexdigest()[:16]


def H(data: bytes, hash_type: str = 'sha256') -> str:
    return hashlib.new(hash_type, data).hexdigest()


class InternalError(Exception):
    """A harness problem (never reported as a VIOLATION; exit code 3)."""


class ExecTimeout(BaseException):
    """One execution of the implementation did not finish within its horizon (reported as a hang)."""


class time_limit:  # pylint: disable=invalid-name
    """Context manager: raise ExecTimeout in the main thread of this process after `seconds` of wall time."""

    def __init__(self, seconds: float):
        self.seconds = seconds

    def _handler(self, signum, frame):
        raise ExecTimeout(f'no completion within {self.seconds}s')

    def __enter__(self):
        import signal
        # nestable: remember what was left of an enclosing limit and re-arm it on exit
        self._outer_left = signal.getitimer(signal.ITIMER_REAL)[0]
        self._t0 = time.time()
        self._old = signal.signal(signal.SIGALRM, self._handler)
        signal.setitimer(signal.ITIMER_REAL, self.seconds)
        return self

    def __exit__(self, *exc):
        import signal
        signal.setitimer(signal.ITIMER_REAL, 0)
        signal.signal(signal.SIGALRM, self._old)
        if self._outer_left:
            signal.setitimer(signal.ITIMER_REAL, max(0.05, self._outer_left - (time.time() - self._t0)))
        return False


EXEC_HORIZON = float(os.environ.get('DOSMC_EXEC_HORIZON', '30'))
# an execution that exceeds the horizon is re-run once with this much more time before it is reported as a hang, so that a
# slow (heavily loaded) machine cannot turn into a violation
HORIZON_RETRY_FACTOR = 8


def _worker_init():
    import gc
    gc.disable()
    # make sure a forked worker gets its own scratch root
    global _my_scratch
    _my_scratch = None


_calls = 0
_ticks = 0


def maybe_collect(every: int = 500):
    """Called from long loops inside one task: collect cyclic garbage every `every` iterations (the collector is disabled)."""
    global _ticks
    _ticks += 1
    if _ticks % every == 0:
        import gc
        gc.collect()


def _call(fn, arg):
    global _calls
    try:
        return ('ok', fn(arg))
    except BaseException as exc:  # pylint: disable=broad-except
        return ('err', ''.join(traceback.format_exception(type(exc), exc, exc.__traceback__)))
    finally:
        # the collector is disabled while an execution runs (no finaliser may fire in the middle of a schedule or census); collect
        # the accumulated cycles between tasks, where every handle has been closed explicitly
        _calls += 1
        if _calls % 8 == 0:
            import gc
            gc.collect()


_POOL: ProcessPoolExecutor | None = None


def pool() -> ProcessPoolExecutor:
    global _POOL
    if _POOL is None:
        ctx = mp.get_context('fork')
        _POOL = ProcessPoolExecutor(max_workers=NPROC, mp_context=ctx, initializer=_worker_init)
        atexit.register(shutdown_pool)
    return _POOL


def shutdown_pool():
    global _POOL
    if _POOL is not None:
        _POOL.shutdown(wait=True, cancel_futures=True)
        _POOL = None


def pmap(fn, items, chunk: int = 1, progress: str | None = None):
    """Ordered parallel map over a process pool; a worker exception becomes an InternalError."""
    items = list(items)
    if not items:
        return []
    if NPROC <= 1 or len(items) == 1:
        out = []
        for it in items:
            st, val = _call(fn, it)
            if st == 'err':
                raise InternalError(val)
            out.append(val)
        return out
    ex = pool()
    futs = {}
    for i, it in enumerate(items):
        futs[ex.submit(_call, fn, it)] = i
    out = [None] * len(items)
    done = 0
    t0 = time.time()
    for f in as_completed(futs):
        st, val = f.result()
        if st == 'err':
            raise InternalError(val)
        out[futs[f]] = val
        done += 1
        if progress and done % max(1, len(items) // 10) == 0:
            log(f'{progress}: {done}/{len(items)} ({time.time() - t0:.0f}s)')
    return out


def log(msg: str) -> None:
    print(f'[dosmc] {msg}', file=sys.stderr, flush=True)


def chunks(seq, n):
    seq = list(seq)
    k = max(1, (len(seq) + n - 1) // n)
    return [seq[i:i + k] for i in range(0, len(seq), k)]
