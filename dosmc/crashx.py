"""E3: crash points, power-loss images and single faults, enumerated exhaustively over the interposed I/O calls of one
operation executed on the real library.

One instrumented run of the operation produces *all* crash images: before every mutating call (open for writing,
write, flush, close of a written file, truncate, fsync, rename/replace/link/unlink/remove/mkdir, SQL write statement,
commit) - and once more after the operation has returned - the container tree is copied through the OS, so bytes
still sitting in Python's user-space buffers are absent exactly as after kill -9.  The power-loss variant of image k
additionally replaces every regular non-SQLite file by the content it had at its last fsync (tracked per inode;
never-synced files become empty; everything present when the operation starts counts as synced).

Fault run k re-executes the scenario from scratch with faultable call #k replaced by an I/O error.
"""
from __future__ import annotations

import errno
import os
import shutil
import sqlite3
import stat as statmod

from . import iolayer
from .common import EXEC_HORIZON, ExecTimeout, REAL, fresh_dir, rmtree, time_limit
from .rawread import RawState
from .world import ABSENT_IDX, World

from disk_objectstore import Container
from disk_objectstore.exceptions import NotExistent

FAULTABLE = {'open.w', 'open.r', 'f.write', 'f.flush', 'f.close.w', 'f.truncate', 'os.fsync', 'os.rename', 'os.replace', 'os.link',
             'os.unlink', 'os.remove', 'os.mkdir', 'fcntl', 'sql.commit'}


# --------------------------------------------------------------------------------------------------------------------
# scenarios

class Scenario:
    def __init__(self, name, setup, op, config=None, universe=None, tags=(), thresholds=None):
        self.name = name
        self.setup = list(setup)
        self.op = op
        self.config = dict(config or {})
        self.universe = universe
        self.tags = set(tags)
        self.thresholds = thresholds       # lowered (_IN_SQL_MAX_LENGTH, _MAX_CHUNK_ITERATE_LENGTH) or None
        self.fault_kinds = None            # restrict C17's fault positions to these call kinds (None = all)

    def key(self):
        return {'name': self.name, 'setup': self.setup, 'op': self.op, 'config': self.config, 'thresholds': self.thresholds}


N = 4   # index of an extra "new" content in the 5-element universe used by crash scenarios
UNIVERSE5 = None


def universe5():
    from .world import UNIVERSE
    return list(UNIVERSE) + [b'N' * 30]


PRE = {
    # loose 1,2 ; packed-compressed 3 (pack 0 is full: 27-byte object, target 25)
    'mixed': [('add', 1), ('add', 2), ('topack', (3,), True, False, True)],
    # two packs, a hole (deleted object 2), object 1 also loose
    'packed-holes': [('topack', (1, 2), False, False, True), ('topack', (3,), False, False, True), ('delete', (2,)), ('add', 1)],
    # everything loose
    'all-loose': [('add', 0), ('add', 1), ('add', 2), ('add', 3)],
    # objects both loose and packed, the last pack exactly full, one compressed object re-loosened
    'both-forms': [('add', 1), ('add', 3), ('pack', 'YES', False, True), ('add', 2), ('loosen', 3), ('topack', (0,), True, False, True)],
    # nothing at all
    'empty': [],
    # one pack that is neither empty nor full (the next direct-to-pack write appends to an existing pack)
    'partial-pack': [('topack', (1,), False, False, True), ('add', 2)],
    # index rows written but not yet committed by this handle (do_commit=False), for contents that also exist loose
    'uncommitted-rows': [('add', 1), ('add', 2), ('topack', (1, 2), False, False, True, ('kw', ('do_commit', False)))],
}


def scenarios(tier: str):
    """Operation variants x pre-states (DESIGN.md, C05). Quick: one pre-state per variant; thorough: all."""
    out = []
    nofsync = ('kw', ('do_fsync', False))

    def add(name, pre, op, tags=(), config=None):
        out.append(Scenario(f'{name}@{pre}', PRE[pre], op, config=config, universe=universe5(), tags=tags))

    pres_quick = {'mixed'}
    for pre in PRE:
        if pre in ('partial-pack', 'uncommitted-rows'):
            continue
        q = pre in pres_quick
        t = ('quick',) if q else ()
        add('add-new', pre, ('add', N), t)
        add('add-duplicate', pre, ('add', 1), t if pre == 'mixed' else ())
        add('add-streamed-new', pre, ('adds', N))
        for per_pack in (False, True):
            for mode in ('NO', 'YES'):
                add(f'pack-{mode}-perpack{int(per_pack)}', pre, ('pack', mode, per_pack, True),
                    ('quick',) if pre in ('mixed', 'all-loose') and (mode == 'NO' or per_pack) else ())
        add('pack-AUTO-perpack1-novalidate', pre, ('pack', 'AUTO', True, False))
        add('pack-NO-perpack1-nofsync', pre, ('pack', 'NO', True, True, nofsync), ('nofsync',) + (('quick',) if pre == 'all-loose' else ()))
        add('pack-NO-perpack0-nofsync', pre, ('pack', 'NO', False, True, nofsync), ('nofsync',))
        add('clean', pre, ('clean', False), t)
        add('clean-vacuum', pre, ('clean', True))
        for compress in (False, True):
            for nh, tw in ((False, True), (True, True), (True, False)):
                # batch: known object, new object, known again, new (crosses the 25-byte pack boundary)
                add(f'topack-c{int(compress)}-nh{int(nh)}-tw{int(tw)}', pre, ('topack', (1, N, 1, 0), compress, nh, tw),
                    ('quick',) if q and (compress or nh) else ())
        add('topack-nofsync', pre, ('topack', (N, 2), False, False, True, nofsync), ('nofsync',) + t)
        add('stopack-lazy', pre, ('stopack', (N, 1), True, True, False, True))
        add('delete-loose-and-packed', pre, ('delete', (1, 3)), t)
        add('delete-all-absent', pre, ('delete', (0, 1, 2, 3, ABSENT_IDX)))
        for mode in ('KEEP', 'YES', 'NO', 'AUTO'):
            add(f'repack-{mode}', pre, ('repack', mode), ('quick',) if pre in ('mixed', 'packed-holes') and mode in ('KEEP', 'YES') else ())
        add('repack_pack0-NO', pre, ('repack_pack', 0, 'NO'), ('quick',) if pre == 'packed-holes' else ())
        add('import-same', pre, ('import', (N, 0, 1, 2, 3), False, 104857600, 'same'), t)
        add('import-other-smallbudget', pre, ('import', (0, 1, N, 2, 3), True, 13, 'other'), ('quick',) if pre == 'packed-holes' else ())
        add('loosen-packed', pre, ('loosen', 3), t)
        if pre in ('both-forms', 'empty'):
            continue
        add('import-same-budget13-compress', pre, ('import', (3, N, 0, 1, 2), True, 13, 'same'))
        add('import-other-budget1', pre, ('import', (0, 1, 2, 3, ABSENT_IDX), False, 1, 'other'))
        add('repack_pack1-YES', pre, ('repack_pack', 1, 'YES'))
        add('pack-KEEP-perpack1', pre, ('pack', 'KEEP', True, True))
        add('topack-batch-twice-nh1-tw0-c1', pre, ('topack', (N, N, 2, N, 3), True, True, False))
        add('stopack-lazy-plain', pre, ('stopack', (2, N, 0), False, False, True, True))
        add('sotopack-compress', pre, ('sotopack', N, True, False, True))
    out.append(Scenario('topack-append-to-existing@partial-pack', PRE['partial-pack'], ('topack', (N, 0), False, False, True), universe=universe5(), tags=('quick',)))
    out.append(Scenario('import-same-append@partial-pack', PRE['partial-pack'], ('import', (N, 3), False, 104857600, 'same'), universe=universe5(), tags=('quick',)))
    out.append(Scenario('pack-append@partial-pack', PRE['partial-pack'], ('pack', 'NO', True, True), universe=universe5(), tags=('quick',)))
    # internal batch size lowered to 2: operations that work in batches of _IN_SQL_MAX_LENGTH go through several batches
    out.append(Scenario('topack-batch-lowIN@mixed', PRE['mixed'], ('topack', (N, 2, 0, 1), False, False, True), universe=universe5(),
                        tags=('quick',), thresholds=(2, 9500)))
    out.append(Scenario('pack-lowIN@all-loose', PRE['all-loose'], ('pack', 'YES', True, True), universe=universe5(), tags=('quick',), thresholds=(2, 9500)))
    out.append(Scenario('delete-lowIN@packed-holes', PRE['packed-holes'], ('delete', (1, 3, 0)), universe=universe5(), tags=('quick',), thresholds=(1, 9500)))
    out.append(Scenario('import-lowIN@partial-pack', PRE['partial-pack'], ('import', (N, 0, 3, 2), True, 20, 'other'), universe=universe5(), tags=(), thresholds=(2, 1)))
    # one direct-to-pack call storing more than a thousand new objects (any internal "every N rows" batching is crossed); only for
    # the fault check, and only the calls after the data has been handed over are faulted (there are > 1000 write calls)
    big = Scenario('topack-1200-objects@empty', [], ('topack', tuple(range(5, 1205)), False, False, True),
                   config={'pack_size_target': 4 * 1024 ** 3}, universe=universe5() + [b'obj-%05d' % i for i in range(1200)],
                   tags=('quick', 'faults-only'))
    big.fault_kinds = {'f.flush', 'f.close.w', 'os.fsync', 'sql.commit', 'os.remove', 'fcntl'}
    out.append(big)
    big2 = Scenario('topack-1200-objects-nofsync@empty', [], ('topack', tuple(range(5, 1205)), False, False, True, ('kw', ('do_fsync', False))),
                    config={'pack_size_target': 4 * 1024 ** 3}, universe=universe5() + [b'obj-%05d' % i for i in range(1200)],
                    tags=('quick', 'faults-only', 'nofsync'))
    big2.fault_kinds = big.fault_kinds
    out.append(big2)
    # read-only operations under a single fault (only for the fault check): a failing open/read of a stored object must raise,
    # never be answered as "no such object" / None / a shorter listing
    for qname, q in (('has', ('q', 'has')), ('bulkall', ('q', 'bulkall')), ('bulk', ('q', 'bulk')), ('meta', ('q', 'meta')),
                     ('get-loose', ('q', 'get', 1)), ('get-packed', ('q', 'get', 3))):
        out.append(Scenario(f'read-{qname}@mixed', PRE['mixed'], q, universe=universe5(), tags=('quick', 'faults-only')))
    out.append(Scenario('clean@uncommitted-rows', PRE['uncommitted-rows'], ('clean', False), universe=universe5(), tags=('quick', 'uncommitted')))
    out.append(Scenario('pack@uncommitted-rows', PRE['uncommitted-rows'], ('pack', 'NO', True, True), universe=universe5(), tags=('uncommitted',)))
    out.append(Scenario('add-damaged-truncated-copy@mixed', PRE['mixed'] + [('damage', 2)], ('adds', 2), universe=universe5(), tags=('quick', 'damaged')))
    # pack after packing: scenario where pack_all_loose crosses into a new pack with existing objects
    out.append(Scenario('add-damaged-copy@mixed', PRE['mixed'] + [('damage', 1)], ('add', 1), universe=universe5(),
                        tags=('quick', 'damaged')))
    if tier == 'quick':
        out = [s for s in out if 'quick' in s.tags]
    else:
        # thorough: two-step scenarios - every ordered pair (first, second) of a list of operations from the mixed pre-state; the first
        # completes through the same handle (cached pack id, open session), the crash / fault hits the second
        pair_ops = [('add', N), ('add', 1), ('pack', 'NO', False, True), ('pack', 'YES', True, True), ('clean', False),
                    ('topack', (N, 1, 0), False, False, True), ('topack', (1, N), True, True, False), ('delete', (1, 3)), ('repack', 'KEEP'),
                    ('repack', 'YES'), ('loosen', 3), ('import', (N, 0, 2), False, 13, 'other'), ('reopen',)]
        for a in pair_ops:
            for b in pair_ops:
                if b[0] == 'reopen':
                    continue
                name = f'pair-{a[0]}{"-" + str(a[1]) if len(a) > 1 else ""}-then-{b[0]}{"-" + str(b[1]) if len(b) > 1 else ""}'
                out.append(Scenario(f'{name}@mixed', PRE['mixed'] + [a], b, universe=universe5(), tags=('pair',)))
        # thorough: every scenario additionally under other configurations (flat loose folder + sha1; one big pack)
        extra = []
        for cfg_name, cfg in (('p0-sha1', {'loose_prefix_len': 0, 'hash_type': 'sha1'}), ('bigpack-zlib9', {'pack_size_target': 4 * 1024 ** 3, 'compression_algorithm': 'zlib+9'}),
                              ('p3-target60', {'loose_prefix_len': 3, 'pack_size_target': 60})):
            for s in out:
                if 'faults-only' in s.tags:
                    continue
                extra.append(Scenario(f'{s.name}[{cfg_name}]', s.setup, s.op, config=cfg, universe=s.universe, tags=s.tags, thresholds=s.thresholds))
        out += extra
    return out


# --------------------------------------------------------------------------------------------------------------------
# recording

class _Recorder(iolayer.Consumer):
    def __init__(self, root, imgdir, torn=False):
        self.root = root
        self.imgdir = imgdir
        self.torn = torn      # torn-write mode: only images of a write(2) cut short by the kill are taken
        self.labels: list[str] = []
        self.synced: dict[tuple, bytes] = {}
        self.sync_log: list[str] = []
        self.events: list[str] = []

    def baseline(self):
        for dirpath, _dirs, files in os.walk(self.root):
            for f in files:
                p = os.path.join(dirpath, f)
                st = REAL['os.stat'](p)
                with REAL['open'](p, 'rb') as fh:
                    self.synced[(st.st_dev, st.st_ino)] = fh.read()

    def image(self, label):
        k = len(self.labels)
        dst = os.path.join(self.imgdir, f'k{k}')
        pl = os.path.join(self.imgdir, f'p{k}')
        _copy_tree(self.root, dst, None)
        _copy_tree(self.root, pl, self.synced)
        self.labels.append(label)

    def torn_images(self, ev):
        """The process is killed while the data of this write reach the file: everything written to the stream before
        is in the file (the user-space buffer was drained), and only a proper prefix of this call's data follows."""
        data = bytes(ev.data)
        f = ev.fobj
        try:
            f.flush()
            pos = REAL['os.fstat'](f.fileno()).st_size if 'a' in getattr(f, 'mode', '') else f.tell()
        except (OSError, ValueError, AttributeError):
            return
        for n in sorted({1, len(data) // 2, len(data) - 1}):
            if not 0 < n < len(data):
                continue
            dst = os.path.join(self.imgdir, f't{len(self.labels)}')
            _copy_tree(self.root, dst, None)
            with REAL['open'](os.path.join(dst, ev.path), 'r+b') as fh:
                fh.seek(pos)
                fh.write(data[:n])
            self.labels.append(f'{ev.label()} torn after {n} bytes')

    def before(self, ev):
        self.events.append(ev.label())
        if self.torn:
            if ev.kind == 'f.write' and ev.data is not None and len(ev.data) >= 2:
                self.torn_images(ev)
            return
        if ev.mutating:
            self.image(ev.label())

    def after(self, ev, result):
        if ev.kind in ('os.fsync', 'fcntl') and ev.fd is not None:
            try:
                st = REAL['os.fstat'](ev.fd)
                if statmod.S_ISREG(st.st_mode):
                    with REAL['open'](f'/proc/self/fd/{ev.fd}', 'rb') as fh:
                        self.synced[(st.st_dev, st.st_ino)] = fh.read()
                    self.sync_log.append(ev.path)
            except OSError:
                pass


def _copy_tree(src, dst, synced):
    """Copy the container tree through the OS. With `synced`, regular non-SQLite files get their last-fsynced content."""
    os.makedirs(dst)
    for dirpath, dirs, files in os.walk(src):
        rel = os.path.relpath(dirpath, src)
        for d in dirs:
            os.makedirs(os.path.join(dst, rel, d), exist_ok=True)
        for f in files:
            if f.endswith('-shm'):
                continue     # rebuilt by SQLite's recovery after a crash; its content is irrelevant
            s = os.path.join(dirpath, f)
            t = os.path.join(dst, rel, f)
            if synced is not None and not f.startswith('packs.idx'):
                st = REAL['os.stat'](s)
                with REAL['open'](t, 'wb') as fh:
                    fh.write(synced.get((st.st_dev, st.st_ino), b''))
            else:
                shutil.copyfile(s, t)


def _build(sc: Scenario):
    Container._IN_SQL_MAX_LENGTH, Container._MAX_CHUNK_ITERATE_LENGTH = sc.thresholds or (950, 9500)
    w = World(config=sc.config, universe=sc.universe)
    for op in sc.setup:
        if op[0] == 'damage':
            k = w.model.keys[op[1]]
            pl = w.config['loose_prefix_len']
            p = os.path.join(w.root, 'loose', k[:pl], k[pl:]) if pl else os.path.join(w.root, 'loose', k)
            with REAL['open'](p, 'wb') as fh:
                fh.write(b'damaged!')
            continue
        r = w.apply(op)
        if not r.ok:
            w.close()
            raise RuntimeError(f'scenario {sc.name}: setup op {op} failed: {r.detail}')
    if sc.op[0] == 'import':
        w.source(sc.op[4])       # build the source container before recording starts
    return w


def _expectations(sc: Scenario, w: World):
    """(must, maybe, targets): keys that must survive, keys being added, keys targeted by a deletion."""
    m = w.model
    before = set(m.present())
    after_model = m.copy()
    kind = sc.op[0]
    targets = set()
    adding = set()
    if kind == 'delete':
        targets = {m.key(i) for i in sc.op[1]}
    elif kind in ('add', 'adds'):
        adding = {m.keys[sc.op[1]]}
    elif kind in ('topack', 'stopack'):
        adding = {m.keys[i] for i in sc.op[1]}
    elif kind == 'sotopack':
        adding = {m.keys[sc.op[1]]}
    elif kind == 'import':
        adding = {m.keys[i] for i in sc.op[1] if i != ABSENT_IDX}
    must = before - targets
    maybe = (adding | targets) - must
    del after_model
    return must, maybe, targets


def record(sc: Scenario, torn=False):
    """Run the scenario once with the recorder. Returns (world(closed dir kept), imgdir, labels, info).
    With torn=True the images are those of writes cut short (t<k>) instead of the call boundaries (k<k>, p<k>)."""
    w = _build(sc)
    imgdir = fresh_dir('img')
    rec = _Recorder(w.root, imgdir, torn=torn)
    must, maybe, targets = _expectations(sc, w)
    damaged = {w.model.keys[o[1]] for o in sc.setup if o[0] == 'damage'}
    rec.baseline()
    iolayer.activate(w.root, rec)
    iolayer.set_actor('main')
    res = None
    try:
        with time_limit(EXEC_HORIZON):
            res = w.apply(sc.op)
    finally:
        iolayer.set_actor(None)
        iolayer.deactivate()
    if not torn:
        rec.image('<returned>')
    info = {'must': must, 'maybe': maybe, 'targets': targets, 'res': res, 'events': rec.events, 'sync_log': rec.sync_log,
            'content': dict(w.model.content), 'keys': list(w.model.keys), 'absent': w.model.absent, 'damaged': damaged,
            'model_after': w.model.mapping()}
    return w, imgdir, rec.labels, info


def check_image(path, info, allow_missing_pack_exception=True):
    """Oracle of C05/C06 on one image. Returns list of (clause, detail)."""
    # pylint: disable=too-many-branches
    probs = []
    content = info['content']
    must, maybe = info['must'], info['maybe']
    raw = RawState(path)
    refs_repack = any(r.pack_id == -1 for r in raw.rows)
    for r in raw.rows:
        if r.hashkey not in content:
            probs.append(('raw-unknown-row', f'index row for unknown key {r.hashkey[:10]}'))
            continue
        got, why = raw.recover(r)
        if got != content[r.hashkey]:
            probs.append(('raw-row-bytes', f'index row of {r.hashkey[:10]} (pack {r.pack_id} off {r.offset} len {r.length} '
                                           f'compressed={r.compressed}) does not yield the object: '
                                           f'{why or repr(got[:20]) + " len " + str(len(got))}'))
    byk = raw.rows_by_key()
    for k, data in raw.loose.items():
        if k in info['damaged'] and data == b'damaged!':
            continue    # the scenario itself planted this damaged loose copy; it may still be in place
        if content.get(k) != data:
            probs.append(('raw-loose-bytes', f'loose file {k[:10]} holds {len(data)} bytes that do not hash to its name'))
    for k in must:
        if k in info['damaged']:
            continue
        if k not in byk and k not in raw.loose:
            probs.append(('raw-lost', f'object {k[:10]} stored before the operation is neither indexed nor loose'))
    # fresh handle on the image
    c = Container(path)
    try:
        allk = info['keys'] + [info['absent']]
        for k in allk:
            if k in info['damaged']:
                continue
            try:
                b = c.get_object_content(k)
                if k not in content or b != content[k]:
                    probs.append(('fresh-wrong-bytes', f'new handle returned {b[:20]!r} (len {len(b)}) for {k[:10]}'))
                has = c.has_objects([k])[0]
                if not has:
                    probs.append(('fresh-has', f'has_objects says {k[:10]} is absent but it reads back'))
            except NotExistent:
                if k in must:
                    probs.append(('fresh-lost', f'new handle: NotExistent for {k[:10]} which was stored before the operation'))
                elif k not in maybe and k in content and k in info['targets']:
                    pass
            except Exception as exc:  # pylint: disable=broad-except
                if refs_repack and allow_missing_pack_exception:
                    continue       # interrupted repack: the index points at the temporary pack; failing loudly is allowed
                probs.append(('fresh-exception', f'new handle: {type(exc).__name__}: {exc} for {k[:10]}'))
    finally:
        c.close()
    return probs


# --------------------------------------------------------------------------------------------------------------------
# faults

PartialWrite = iolayer.PartialWrite


class _Injector(iolayer.Consumer):
    def __init__(self, index, variant):
        self.index = index
        self.variant = variant     # 'eio' | 'partial'
        self.n = 0
        self.labels: list[str] = []
        self.fired = None

    def before(self, ev):
        if ev.kind not in FAULTABLE:
            return
        i = self.n
        self.n += 1
        self.labels.append(ev.label())
        if i != self.index:
            return
        self.fired = ev.label()
        if ev.kind == 'sql.commit':
            raise sqlite3.OperationalError('disk I/O error (injected)')
        if self.variant == 'partial' and ev.kind == 'f.write':
            raise PartialWrite(max(1, int(ev.detail or '2') // 2))
        if self.variant == 'eacces':
            raise PermissionError(errno.EACCES, 'Permission denied (injected)', ev.path)
        raise OSError(errno.EIO, 'Input/output error (injected)', ev.path)


def count_faultable(sc: Scenario):
    """Dry run: labels of the faultable calls of the scenario's operation."""
    w = _build(sc)
    inj = _Injector(-1, 'eio')
    iolayer.activate(w.root, inj)
    iolayer.set_actor('main')
    try:
        with time_limit(EXEC_HORIZON):
            w.apply(sc.op)
    finally:
        iolayer.set_actor(None)
        iolayer.deactivate()
        w.close()
    return inj.labels


def run_fault(sc: Scenario, index: int, variant: str):
    """Execute the scenario with fault #index. Returns (world (open), StepResult, fired label, info)."""
    w = _build(sc)
    must, maybe, targets = _expectations(sc, w)
    damaged = {w.model.keys[o[1]] for o in sc.setup if o[0] == 'damage'}
    model_before = w.model.copy()
    inj = _Injector(index, variant)
    iolayer.activate(w.root, inj)
    iolayer.set_actor('main')
    try:
        with time_limit(EXEC_HORIZON):
            res = w.apply(sc.op)
    finally:
        iolayer.set_actor(None)
        iolayer.deactivate()
    info = {'must': must, 'maybe': maybe, 'targets': targets, 'content': dict(w.model.content), 'keys': list(w.model.keys),
            'absent': w.model.absent, 'damaged': damaged, 'model_before': model_before}
    return w, res, inj.fired, info
