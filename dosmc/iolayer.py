"""Interposition on every I/O-relevant call the library makes, without touching the repository.

* a module-level name ``open`` is injected into disk_objectstore.container and disk_objectstore.utils (module globals
  shadow builtins); it returns a thin proxy whose read/write/flush/close/truncate are events;
* wrappers on os.{remove,unlink,rename,replace,link,mkdir,makedirs,listdir,stat,fstat,fsync,open,close} and fcntl.fcntl;
* SQL statements and commits are intercepted at the SQLAlchemy dialect (do_execute / do_executemany / do_commit), so an
  injected failure looks exactly like a failing DBAPI call.

Events are delivered to the active consumer only for paths under the watched root, only from threads that carry an
actor name, and never re-entrantly (harness code running inside a consumer uses the saved originals / is flagged busy).
"""
from __future__ import annotations

import errno
import fcntl
import io
import os
import threading

from .common import REAL

_tl = threading.local()
_state = {'installed': False, 'root': None, 'consumer': None}

MUTATING = {'open.w', 'f.write', 'f.flush', 'f.close.w', 'f.truncate', 'os.remove', 'os.unlink', 'os.rename', 'os.replace',
            'os.link', 'os.mkdir', 'os.makedirs', 'os.fsync', 'fcntl', 'sql.write', 'sql.commit'}


class PartialWrite(Exception):
    """Raised by a consumer from before(f.write): write only the first n bytes, then fail with ENOSPC."""

    def __init__(self, n):
        super().__init__(n)
        self.n = n


class Event:
    __slots__ = ('actor', 'kind', 'path', 'path2', 'mode', 'detail', 'fd', 'fobj', 'data')

    def __init__(self, actor, kind, path='', path2='', mode='', detail='', fd=None, fobj=None, data=None):
        self.actor = actor
        self.kind = kind
        self.path = path
        self.path2 = path2
        self.mode = mode
        self.detail = detail
        self.fd = fd
        self.fobj = fobj
        self.data = data     # payload of an f.write (for torn-write crash images)

    @property
    def mutating(self):
        return self.kind in MUTATING

    @property
    def resource(self):
        return classify(self.path) if self.path else ('index' if self.kind.startswith('sql') else '')

    def label(self):
        s = self.kind
        if self.path:
            s += ':' + self.path
        if self.path2:
            s += '->' + self.path2
        if self.detail:
            s += ' ' + self.detail
        return s

    def __repr__(self):
        return f'<{self.actor} {self.label()}>'


def classify(rel: str) -> str:
    """Resource class of a path relative to the container root."""
    parts = rel.split('/')
    top = parts[0]
    if top == 'loose':
        return 'loosedir' if len(parts) < 2 or (len(parts) == 2 and len(parts[1]) <= 3) else 'loose:' + ''.join(parts[1:])
    if top == 'packs':
        if len(parts) == 1:
            return 'packdir'
        return 'lock:' + parts[1][:-5] if parts[1].endswith('.lock') else 'pack:' + parts[1]
    if top == 'sandbox':
        return 'sandbox'
    if top == 'duplicates':
        return 'dup'
    if top.startswith('packs.idx'):
        return 'index'
    if top == 'config.json':
        return 'config'
    return 'other:' + top


def set_actor(name):
    _tl.actor = name


def get_actor():
    return getattr(_tl, 'actor', None)


class busy:  # pylint: disable=invalid-name
    """Harness code that must not generate events."""

    def __enter__(self):
        self.prev = getattr(_tl, 'busy', False)
        _tl.busy = True

    def __exit__(self, *a):
        _tl.busy = self.prev


def _rel(path):
    root = _state['root']
    if root is None:
        return None
    try:
        p = os.fspath(path)
    except TypeError:
        return None
    if isinstance(p, bytes):
        p = p.decode()
    if not p.startswith('/'):
        p = os.path.abspath(p)
    if p == root:
        return '.'
    if p.startswith(root + '/'):
        return p[len(root) + 1:]
    return None


def _emit(kind, path='', path2='', mode='', detail='', fd=None, fobj=None, data=None):
    """Deliver a 'before' event; returns the Event (or None when not delivered)."""
    cons = _state['consumer']
    if cons is None or getattr(_tl, 'busy', False):
        return None
    actor = getattr(_tl, 'actor', None)
    if actor is None:
        return None
    ev = Event(actor, kind, path, path2, mode, detail, fd, fobj, data)
    _tl.busy = True
    try:
        cons.before(ev)
    finally:
        _tl.busy = False
    return ev


def _after(ev, result=None):
    cons = _state['consumer']
    if ev is None or cons is None:
        return
    _tl.busy = True
    try:
        cons.after(ev, result)
    finally:
        _tl.busy = False


import weakref

_open_proxies = weakref.WeakSet()


class FileProxy:
    """Delegating proxy around a real file object; selected methods are events."""

    def __init__(self, fobj, rel, mode):
        object.__setattr__(self, '_f', fobj)
        object.__setattr__(self, '_rel', rel)
        object.__setattr__(self, '_w', any(c in mode for c in 'wxa+'))
        _open_proxies.add(self)

    def __hash__(self):
        return id(self)

    def __eq__(self, other):
        return self is other

    def __getattr__(self, name):
        return getattr(self._f, name)

    def __setattr__(self, name, value):
        setattr(self._f, name, value)

    def read(self, *a, **k):
        ev = _emit('f.read', self._rel, fobj=self._f)
        r = self._f.read(*a, **k)
        _after(ev, r)
        return r

    def write(self, data):
        try:
            ev = _emit('f.write', self._rel, detail=str(len(data)), fobj=self._f, data=data)
        except PartialWrite as pw:
            # injected fault: part of the data reaches the file, then the device is full
            self._f.write(data[:pw.n])
            raise OSError(errno.ENOSPC, 'No space left on device (injected)', self._rel) from None
        r = self._f.write(data)
        _after(ev, r)
        return r

    def flush(self):
        ev = _emit('f.flush', self._rel, fobj=self._f)
        r = self._f.flush()
        _after(ev, r)
        return r

    def truncate(self, *a):
        ev = _emit('f.truncate', self._rel, fobj=self._f)
        r = self._f.truncate(*a)
        _after(ev, r)
        return r

    def close(self):
        if self._f.closed:
            return self._f.close()
        try:
            ev = _emit('f.close.w' if self._w else 'f.close.r', self._rel, fobj=self._f)
        except OSError:
            # injected fault: the implicit flush of close() fails - buffered bytes never reach the file, the descriptor is
            # released all the same (this is what a failing write-back at close looks like)
            raw = getattr(self._f, 'raw', None)
            try:
                if raw is not None:
                    raw.close()
                self._f.close()
            except (OSError, ValueError):
                pass
            raise
        r = self._f.close()
        _after(ev, r)
        return r

    def __enter__(self):
        return self

    def __exit__(self, *a):
        self.close()

    def __iter__(self):
        return iter(self._f)


def _open(path, mode='r', *a, **k):
    rel = _rel(path)
    if rel is None:
        return REAL['open'](path, mode, *a, **k)
    w = any(c in mode for c in 'wxa+')
    ev = _emit('open.w' if w else 'open.r', rel, mode=mode)
    f = REAL['open'](path, mode, *a, **k)
    _after(ev, f)
    if _state['consumer'] is None:
        return f
    return FileProxy(f, rel, mode)


def _wrap1(name):
    real = REAL['os.' + name]

    def wrapper(path, *a, **k):
        rel = _rel(path) if not isinstance(path, int) else None
        if rel is None:
            return real(path, *a, **k)
        ev = _emit('os.' + name, rel)
        r = real(path, *a, **k)
        _after(ev, r)
        return r
    wrapper.__name__ = name
    return wrapper


def _wrap2(name):
    real = REAL['os.' + name]

    def wrapper(src, dst, *a, **k):
        r1, r2 = _rel(src), _rel(dst)
        if r1 is None and r2 is None:
            return real(src, dst, *a, **k)
        ev = _emit('os.' + name, r1 or str(src), r2 or str(dst))
        r = real(src, dst, *a, **k)
        if name in ('rename', 'replace') and r1 and r2:
            # a file that is still open under its old name keeps being written through the same handle: from now on its events
            # belong to the new name (e.g. a sandbox file that has been moved into loose/ is no longer private to its writer)
            for p in list(_open_proxies):
                if p._rel == r1 and not p._f.closed:
                    object.__setattr__(p, '_rel', r2)
        _after(ev, r)
        return r
    wrapper.__name__ = name
    return wrapper


def _fd_rel(fd):
    try:
        return _rel(REAL['os.readlink'](f'/proc/self/fd/{fd}'))
    except OSError:
        return None


def _fsync(fd):
    rel = _fd_rel(fd) if _state['consumer'] is not None else None
    if rel is None:
        return REAL['os.fsync'](fd)
    ev = _emit('os.fsync', rel, fd=fd)
    r = REAL['os.fsync'](fd)
    _after(ev, r)
    return r


def _fstat(fd):
    rel = _fd_rel(fd) if _state['consumer'] is not None and not getattr(_tl, 'busy', False) else None
    if rel is None:
        return REAL['os.fstat'](fd)
    ev = _emit('os.fstat', rel, fd=fd)
    r = REAL['os.fstat'](fd)
    _after(ev, r)
    return r


_real_fcntl = fcntl.fcntl


def _fcntl(fd, cmd, arg=0):
    fdn = fd if isinstance(fd, int) else fd.fileno()
    rel = _fd_rel(fdn) if _state['consumer'] is not None else None
    if rel is None:
        return _real_fcntl(fd, cmd, arg)
    ev = _emit('fcntl', rel, detail=str(cmd), fd=fdn)
    r = _real_fcntl(fd, cmd, arg)
    _after(ev, r)
    return r


def _os_open(path, flags, *a, **k):
    rel = _rel(path)
    if rel is None:
        return REAL['os.open'](path, flags, *a, **k)
    ev = _emit('os.open', rel, detail=str(flags))
    r = REAL['os.open'](path, flags, *a, **k)
    _after(ev, r)
    return r


def _install_sql():
    from sqlalchemy import event
    from sqlalchemy.engine import Engine
    from sqlalchemy.engine.default import DefaultDialect

    @event.listens_for(Engine, 'before_cursor_execute')
    def _bce(conn, cursor, statement, parameters, context, executemany):  # pylint: disable=unused-argument
        _tl.sql_db = conn.engine.url.database

    @event.listens_for(Engine, 'commit')
    def _cm(conn):
        _tl.sql_db = conn.engine.url.database

    real_exec = DefaultDialect.do_execute
    real_execmany = DefaultDialect.do_executemany
    real_commit = DefaultDialect.do_commit

    def _sql_event(statement):
        db = getattr(_tl, 'sql_db', None)
        _tl.sql_db = None
        rel = _rel(db) if db else None
        if rel is None:
            return None
        word = statement.lstrip().split(None, 1)[0].upper() if statement.strip() else ''
        if word in ('SELECT', 'PRAGMA', 'BEGIN'):
            kind = 'sql.read'
        elif word == 'COMMIT':
            kind = 'sql.commit'
        else:
            kind = 'sql.write'
        return _emit(kind, rel, detail=word)

    def do_execute(self, cursor, statement, parameters, context=None):
        ev = _sql_event(statement)
        r = real_exec(self, cursor, statement, parameters, context)
        _after(ev, r)
        return r

    def do_executemany(self, cursor, statement, parameters, context=None):
        ev = _sql_event(statement)
        r = real_execmany(self, cursor, statement, parameters, context)
        _after(ev, r)
        return r

    def do_commit(self, dbapi_connection):
        db = getattr(_tl, 'sql_db', None)
        _tl.sql_db = None
        rel = _rel(db) if db else None
        ev = _emit('sql.commit', rel, detail='COMMIT') if rel is not None else None
        r = real_commit(self, dbapi_connection)
        _after(ev, r)
        return r

    # the sqlite dialect classes inherit these from DefaultDialect unless they override them
    from sqlalchemy.dialects.sqlite.pysqlite import SQLiteDialect_pysqlite
    for cls in (DefaultDialect, SQLiteDialect_pysqlite):
        for name, fn in (('do_execute', do_execute), ('do_executemany', do_executemany), ('do_commit', do_commit)):
            if name in cls.__dict__ or cls is DefaultDialect:
                setattr(cls, name, fn)


def install():
    """Install all wrappers (idempotent). They are inert until activate()."""
    if _state['installed']:
        return
    import disk_objectstore.container as C
    import disk_objectstore.utils as U
    C.open = _open
    U.open = _open
    io.open = _open
    for name in ('remove', 'unlink', 'mkdir', 'makedirs', 'listdir', 'stat'):
        setattr(os, name, _wrap1(name))
    for name in ('rename', 'replace', 'link'):
        setattr(os, name, _wrap2(name))
    os.fsync = _fsync
    os.fstat = _fstat
    os.open = _os_open
    fcntl.fcntl = _fcntl
    _install_sql()
    _state['installed'] = True


class Consumer:
    def before(self, ev: Event):
        """Called before the real call. May raise (fault injection) or block (scheduler)."""

    def after(self, ev: Event, result):
        """Called after the real call returned normally."""


def activate(root: str, consumer: Consumer):
    install()
    _state['root'] = os.path.realpath(root)
    _state['consumer'] = consumer


def deactivate():
    _state['consumer'] = None
    _state['root'] = None
