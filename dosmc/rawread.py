"""Library-independent reader of a container directory: stdlib sqlite3 + byte slices + zlib + hashlib only.

Nothing from disk_objectstore is imported here.  The index is read from a *copy* of packs.idx (+ -wal), so the
live database is never touched by the harness (no checkpoints, no locks); SQLite rebuilds the shared-memory
file of the copy from the WAL, i.e. the copy shows exactly the committed transactions.
"""
from __future__ import annotations

import hashlib
import json
import os
import shutil
import sqlite3
import zlib

from .common import REAL, fresh_dir, rmtree

# The SQL of the documented manual recovery procedure (docs/pages/design.md, "Long-term support of the data")
ROW_SQL = 'SELECT hashkey, pack_id, offset, length, compressed, size, id FROM db_object ORDER BY id'


class Row(tuple):
    __slots__ = ()
    hashkey = property(lambda s: s[0])
    pack_id = property(lambda s: s[1])
    offset = property(lambda s: s[2])
    length = property(lambda s: s[3])
    compressed = property(lambda s: bool(s[4]))
    size = property(lambda s: s[5])
    rowid = property(lambda s: s[6])


def _read(path: str) -> bytes:
    with REAL['open'](path, 'rb') as fh:
        return fh.read()


def read_index(root: str) -> list[Row]:
    """Committed rows of the pack index, through a private copy."""
    idx = os.path.join(root, 'packs.idx')
    if not os.path.exists(idx):
        return []
    tmp = fresh_dir('idx')
    try:
        shutil.copyfile(idx, os.path.join(tmp, 'packs.idx'))
        wal = idx + '-wal'
        if os.path.exists(wal):
            shutil.copyfile(wal, os.path.join(tmp, 'packs.idx-wal'))
        con = sqlite3.connect(os.path.join(tmp, 'packs.idx'))
        try:
            rows = [Row(r) for r in con.execute(ROW_SQL).fetchall()]
        finally:
            con.close()
        return rows
    finally:
        rmtree(tmp)


class RawState:
    """Everything on disk that matters, read without the library."""

    def __init__(self, root: str):
        self.root = root
        with REAL['open'](os.path.join(root, 'config.json'), encoding='utf8') as fh:
            self.config = json.load(fh)
        self.hash_type = self.config['hash_type']
        self.prefix_len = self.config['loose_prefix_len']
        self.loose: dict[str, bytes] = {}
        self.loose_extraneous: list[str] = []
        self.missing_folders: list[str] = [d for d in ('loose', 'packs', 'duplicates', 'sandbox') if not os.path.isdir(os.path.join(root, d))]
        loose_dir = os.path.join(root, 'loose')
        for first in (sorted(REAL['os.listdir'](loose_dir)) if 'loose' not in self.missing_folders else []):
            p1 = os.path.join(loose_dir, first)
            if self.prefix_len:
                if os.path.isdir(p1):
                    for second in sorted(REAL['os.listdir'](p1)):
                        self.loose[first + second] = _read(os.path.join(p1, second))
                else:
                    self.loose_extraneous.append(first)
            else:
                if os.path.isfile(p1):
                    self.loose[first] = _read(p1)
                else:
                    self.loose_extraneous.append(first)
        self.packs: dict[str, bytes] = {}
        self.pack_other: list[str] = []
        pdir = os.path.join(root, 'packs')
        for name in (sorted(REAL['os.listdir'](pdir)) if 'packs' not in self.missing_folders else []):
            if name.lstrip('-').isdigit():
                self.packs[name] = _read(os.path.join(pdir, name))
            else:
                self.pack_other.append(name)
        self.duplicates = sorted(REAL['os.listdir'](os.path.join(root, 'duplicates'))) if 'duplicates' not in self.missing_folders else []
        self.sandbox = sorted(REAL['os.listdir'](os.path.join(root, 'sandbox'))) if 'sandbox' not in self.missing_folders else []
        self.rows = read_index(root)

    # --- derived views -------------------------------------------------------------------------------------
    def rows_by_key(self) -> dict[str, list[Row]]:
        out: dict[str, list[Row]] = {}
        for r in self.rows:
            out.setdefault(r.hashkey, []).append(r)
        return out

    def stored_bytes(self, r: Row) -> bytes | None:
        data = self.packs.get(str(r.pack_id))
        if data is None or r.offset < 0 or r.length < 0 or r.offset + r.length > len(data):
            return None
        return data[r.offset:r.offset + r.length]

    def recover(self, r: Row) -> tuple[bytes | None, str]:
        """The documented recovery: slice, inflate if flagged. Returns (content or None, problem description)."""
        raw = self.stored_bytes(r)
        if raw is None:
            return None, f'range [{r.offset},{r.offset + r.length}) not inside pack {r.pack_id} ' \
                         f'(size {len(self.packs.get(str(r.pack_id), b"")) if str(r.pack_id) in self.packs else "missing"})'
        if r.compressed:
            d = zlib.decompressobj()
            try:
                out = d.decompress(raw)
            except zlib.error as exc:
                return None, f'zlib error {exc}'
            if not d.eof:
                return None, 'zlib stream does not end inside the recorded length'
            if d.unused_data:
                return None, f'{len(d.unused_data)} bytes after the end of the zlib stream inside the recorded length'
            return out, ''
        return raw, ''

    def object_bytes(self, key: str) -> bytes | None:
        """Content of an object the way the library resolves it (index first, then loose); None if absent/unreadable."""
        rows = self.rows_by_key().get(key)
        if rows:
            return self.recover(rows[0])[0]
        return self.loose.get(key)

    def present_keys(self) -> set[str]:
        return set(self.loose) | {r.hashkey for r in self.rows}

    def canon(self):
        """Canonical, hashable description of the on-disk state (see DESIGN.md, E1)."""
        return (
            tuple(sorted(self.loose)),
            tuple(hashlib.sha256(self.loose[k]).hexdigest()[:12] for k in sorted(self.loose)),
            tuple(self.duplicates),
            tuple((r.hashkey, r.pack_id, r.offset, r.length, int(r.compressed), r.size) for r in self.rows),
            tuple((p, hashlib.sha256(b).hexdigest()[:16]) for p, b in sorted(self.packs.items())),
            tuple(self.pack_other),
            len(self.sandbox),
        )


def invariants(raw: RawState) -> list[tuple[str, str]]:
    """Raw invariants of C03. Returns a list of (clause, detail); empty when the state is self-consistent."""
    probs: list[tuple[str, str]] = []
    for d in raw.missing_folders:
        probs.append(('container-folder-missing', f'the {d}/ folder of the container no longer exists'))
    byk = raw.rows_by_key()
    for k, rs in byk.items():
        if len(rs) > 1:
            probs.append(('unique-key', f'key {k[:10]} indexed {len(rs)} times'))
    per_pack: dict[int, list[Row]] = {}
    for r in raw.rows:
        per_pack.setdefault(r.pack_id, []).append(r)
        content, why = raw.recover(r)
        if content is None:
            probs.append(('range-or-zlib', f'row {r.hashkey[:10]} pack {r.pack_id} off {r.offset} len {r.length}: {why}'))
            continue
        if hashlib.new(raw.hash_type, content).hexdigest() != r.hashkey:
            probs.append(('content-digest', f'row {r.hashkey[:10]} pack {r.pack_id} off {r.offset} len {r.length} '
                                            f'compressed={r.compressed}: bytes do not hash to the key'))
        if len(content) != r.size:
            probs.append(('size', f'row {r.hashkey[:10]}: recorded size {r.size}, content length {len(content)}'))
        if not r.compressed and r.size != r.length:
            probs.append(('size-eq-length', f'row {r.hashkey[:10]}: uncompressed but size {r.size} != length {r.length}'))
    for pid, rs in per_pack.items():
        rs = sorted(rs, key=lambda r: (r.offset, r.length))
        end = 0
        for r in rs:
            if r.offset < end and r.length > 0:
                probs.append(('overlap', f'pack {pid}: row {r.hashkey[:10]} at {r.offset} overlaps previous end {end}'))
            end = max(end, r.offset + r.length)
    for k, data in raw.loose.items():
        if hashlib.new(raw.hash_type, data).hexdigest() != k:
            probs.append(('loose-name', f'loose file {k[:10]} is not named by the digest of its {len(data)} bytes'))
    return probs
