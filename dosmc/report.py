"""Evidence files, violation/replay files, known findings."""
from __future__ import annotations

import json
import os
import time

from .common import VERIF_ROOT, digest, log, seed

# DOSMC_OUT_DIR redirects evidence and replay files (used when trying seeded defects, so that the committed
# evidence of the unchanged tree is not overwritten)
_OUT = os.environ.get('DOSMC_OUT_DIR') or VERIF_ROOT
EVIDENCE_DIR = os.path.join(_OUT, 'evidence')
REPLAY_DIR = os.path.join(_OUT, 'replays')
KNOWN_FINDINGS = os.path.join(VERIF_ROOT, 'known_findings.json')


def _jsonable(o):
    if isinstance(o, bytes):
        return {'__bytes__': o.hex()} if len(o) <= 64 else {'__bytes_len__': len(o), '__sha256__': digest(o.hex())}
    if isinstance(o, (set, frozenset)):
        return sorted(_jsonable(x) for x in o)
    if isinstance(o, tuple):
        return [_jsonable(x) for x in o]
    if isinstance(o, list):
        return [_jsonable(x) for x in o]
    if isinstance(o, dict):
        return {str(k): _jsonable(v) for k, v in o.items()}
    if isinstance(o, (str, int, float, bool)) or o is None:
        return o
    return repr(o)


class Violation:
    """One violating behaviour. `fingerprint` is the normalised description used for known-finding matching."""

    def __init__(self, prop: str, engine: str, clause: str, case, detail: str, fingerprint: dict | None = None,
                 expected=None, observed=None):
        self.prop = prop
        self.engine = engine
        self.clause = clause
        self.case = case
        self.detail = detail
        self.fingerprint = fingerprint or {'engine': engine, 'clause': clause}
        self.expected = expected
        self.observed = observed

    def to_json(self):
        return {
            'property': self.prop,
            'engine': self.engine,
            'clause': self.clause,
            'case': _jsonable(self.case),
            'detail': self.detail,
            'fingerprint': _jsonable(self.fingerprint),
            'expected': _jsonable(self.expected),
            'observed': _jsonable(self.observed),
        }

    @staticmethod
    def from_json(d):
        return Violation(d['property'], d['engine'], d['clause'], d['case'], d['detail'], d.get('fingerprint'),
                         d.get('expected'), d.get('observed'))


def load_known_findings():
    if not os.path.exists(KNOWN_FINDINGS):
        return []
    with open(KNOWN_FINDINGS, encoding='utf8') as fh:
        return json.load(fh).get('findings', [])


def _matches(entry_fp: dict, fp: dict) -> bool:
    """A known entry matches when every key it specifies equals the violation's fingerprint value."""
    fp = _jsonable(fp)
    for k, v in entry_fp.items():
        if fp.get(k) != v:
            return False
    return True


class Report:
    """Collects coverage counters and violations for one run of one property check."""

    def __init__(self, prop: str, tier: str, level: str):
        self.prop = prop
        self.tier = tier
        self.level = level
        self.t0 = time.time()
        self.coverage: dict = {}
        self.assumptions: list[str] = []
        self.violations: list[Violation] = []
        self.notes: list[str] = []
        self.stats: list = []

    def add_violation(self, v: Violation):
        self.violations.append(v)

    def finish(self) -> int:
        """Write evidence, print VIOLATION / KNOWN-FINDING lines, return the exit code."""
        known = [e for e in load_known_findings() if e.get('property') == self.prop and e.get('status') == 'known']
        new: list[Violation] = []
        known_hit: dict[str, int] = {}
        for v in self.violations:
            for e in known:
                if _matches(e.get('fingerprint', {}), v.fingerprint):
                    known_hit[e['what']] = known_hit.get(e['what'], 0) + 1
                    break
            else:
                new.append(v)
        # group new violations by fingerprint, write one replay file per group (first = shortest case)
        groups: dict[str, list[Violation]] = {}
        for v in new:
            groups.setdefault(digest(_jsonable(v.fingerprint)), []).append(v)
        os.makedirs(EVIDENCE_DIR, exist_ok=True)
        replay_paths = []
        MAX_GROUPS = 12
        if len(groups) > MAX_GROUPS:
            self.notes.append(f'{len(groups)} distinct violation fingerprints; replay files written for the first {MAX_GROUPS}')
        for fpd, vs in list(groups.items())[:MAX_GROUPS]:
            d = os.path.join(REPLAY_DIR, self.prop)
            os.makedirs(d, exist_ok=True)
            path = os.path.join(d, f'{fpd}.json')
            body = vs[0].to_json()
            body['occurrences_in_run'] = len(vs)
            body['tier'] = self.tier
            body['seed'] = seed()
            with open(path, 'w', encoding='utf8') as fh:
                json.dump(body, fh, indent=1)
            replay_paths.append((path, vs[0]))
        cov = dict(self.coverage)
        cov.setdefault('samples', [])
        ev = {
            'property_id': self.prop,
            'tier': self.tier,
            'seed': seed(),
            'level': self.level,
            'coverage': _jsonable(cov),
            'assumptions': self.assumptions,
            'wall_s': round(time.time() - self.t0, 2),
            'violations': len(new),
            'known_findings_hit': known_hit,
            'notes': self.notes,
        }
        with open(os.path.join(EVIDENCE_DIR, f'{self.prop}.json'), 'w', encoding='utf8') as fh:
            json.dump(ev, fh, indent=1)
        for what, n in known_hit.items():
            print(f'KNOWN-FINDING: property={self.prop} {what} ({n} occurrences)', flush=True)
        for path, v in replay_paths:
            log(f'{self.prop}: {v.clause}: {v.detail[:300]}')
            print(f'VIOLATION property={self.prop} replay={path}', flush=True)
        summary = {k: v for k, v in cov.items() if isinstance(v, (int, float, bool, str)) and k != 'rule'}
        log(f'{self.prop} [{self.tier}] done in {ev["wall_s"]}s: violations={len(new)} coverage={summary}')
        return 1 if new else 0
