"""E2: stateless, pre-emption-bounded exploration of real threads under a baton scheduler.

Actors are threads, each with its own Container handle(s); exactly one runs at a time.  At every *visible* interposed
event (file-system call or SQL statement on a resource another actor can observe) the running actor hands the baton
back to the controller, which follows the given choice sequence and afterwards always picks choice 0 (= keep running
the current actor; enabled list in canonical order: running actor first, then ascending id).
Exploration = iterative context bounding: run the default schedule, then for every point and every alternative actor
recurse if the number of pre-emptions stays within the bound.  Non-pre-emptive switches (the running actor finished)
are free.
"""
from __future__ import annotations

import threading
import time

from . import iolayer
from .common import pmap

PRIVATE = ('sandbox', 'lock:', 'dup', 'config', 'other:')
STEP_TIMEOUT = 20.0


class Hang(Exception):
    pass


class Scheduler(iolayer.Consumer):
    def __init__(self, choices, visible=None):
        self.choices = list(choices)
        self.threads: dict[str, dict] = {}
        self.order: list[str] = []
        self.main = threading.Semaphore(0)
        self.points: list[tuple] = []      # (enabled names, chosen index, labels)
        self.seq = 0
        # an event is invisible (no scheduling point) only if every path it touches is private to its actor
        self.visible = visible or (lambda ev: not (ev.resource.startswith(PRIVATE) and
                                                   (not ev.path2 or iolayer.classify(ev.path2).startswith(PRIVATE))))
        self.trace: list[str] = []
        self.hung = None
        self.by_full: dict[str, dict] = {}
        self.step_timeout = STEP_TIMEOUT

    # -- actor side ------------------------------------------------------------------------------------------------
    def before(self, ev):
        # actors are registered under a name that is unique to this scheduler instance, so a thread left over from an earlier
        # (timed-out) execution in the same worker process can never take part in this one
        st = self.by_full.get(ev.actor)
        if st is None or not self.visible(ev):
            return
        st['label'] = ev.label()
        st['events'] += 1
        self.main.release()
        st['sem'].acquire()

    def yield_point(self, label):
        """Explicit scheduling point from harness code (e.g. between two reads of a lazily consumed bulk reader)."""
        st = self.by_full.get(iolayer.get_actor())
        if st is None:
            return
        st['label'] = label
        self.main.release()
        st['sem'].acquire()

    def tick(self):
        self.seq += 1
        return self.seq

    # -- controller side -------------------------------------------------------------------------------------------
    def spawn(self, name, fn):
        st = {'sem': threading.Semaphore(0), 'done': False, 'exc': None, 'label': 'start', 'events': 0}

        full = f'{name}@{id(self)}'
        self.by_full[full] = st

        def run():
            st['sem'].acquire()
            iolayer.set_actor(full)
            try:
                fn()
            except BaseException as exc:  # pylint: disable=broad-except
                st['exc'] = exc
            finally:
                iolayer.set_actor(None)
                st['done'] = True
                self.main.release()
        th = threading.Thread(target=run, daemon=True, name=f'actor-{name}')
        st['th'] = th
        self.threads[name] = st
        self.order.append(name)
        th.start()

    def run(self):
        prev = None
        while True:
            en = [n for n in self.order if not self.threads[n]['done']]
            if not en:
                break
            still = prev in en
            if still:
                en = [prev] + [n for n in en if n != prev]
            i = len(self.points)
            ch = self.choices[i] if i < len(self.choices) else 0
            if ch >= len(en):
                raise RuntimeError(f'schedule divergence: choice {ch} at point {i} but only {len(en)} actors enabled')
            self.points.append((tuple(en), ch, still))
            n = en[ch]
            self.trace.append(f'{n}:{self.threads[n]["label"]}')
            prev = n
            self.threads[n]['sem'].release()
            if not self.main.acquire(timeout=self.step_timeout):
                self.hung = f'actor {n} did not reach its next scheduling point within {self.step_timeout}s after {self.threads[n]["label"]}'
                raise Hang(self.hung)


def preemptions(points, upto=None):
    """Number of pre-emptions in points[:upto]: a switch away from an actor that was still enabled."""
    c = 0
    for en, ch, still in points[:upto]:
        if still and ch != 0:
            c += 1
    return c


class Harness:
    """Base class: subclasses define setup(), actors() and check()."""

    name = 'harness'

    def setup(self):
        """Build the container (no interposition active). Returns a context object with .root."""
        raise NotImplementedError

    def actors(self, ctx, sched):
        """List of (name, callable)."""
        raise NotImplementedError

    def check(self, ctx, sched):
        """After all actors finished: list of (clause, detail)."""
        return []

    def teardown(self, ctx):
        pass


def execute(harness: Harness, choices, step_timeout=None):
    """One execution under the given choice sequence. Returns dict(points, viol, outcome, trace)."""
    ctx = harness.setup()
    sched = Scheduler(choices)
    if step_timeout:
        sched.step_timeout = step_timeout
    viol = []
    try:
        for name, fn in harness.actors(ctx, sched):
            sched.spawn(name, fn)
        iolayer.activate(ctx.root, sched)
        try:
            sched.run()
        except Hang as exc:
            viol.append(('hang', str(exc)))
        finally:
            iolayer.deactivate()
        if not viol:
            for name, st in sched.threads.items():
                if st['exc'] is not None:
                    viol.append(('actor-exception', f'actor {name} raised {type(st["exc"]).__name__}: {st["exc"]}'))
            viol += harness.check(ctx, sched)
        outcome = getattr(ctx, 'outcome', None)
        events = {n: st['events'] for n, st in sched.threads.items()}
        return {'points': [(len(en), ch, still) for en, ch, still in sched.points], 'viol': viol, 'outcome': outcome,
                'trace': sched.trace, 'events': events}
    finally:
        if sched.hung is None:
            harness.teardown(ctx)


_HARNESSES: dict = {}


def register(h: Harness):
    _HARNESSES[h.name] = h
    return h


def _exec_task(arg):
    hname, prefixes = arg
    h = _HARNESSES[hname]
    out = []
    for prefix in prefixes:
        r = execute(h, prefix)
        if any(c == 'hang' for c, _ in r['viol']):
            # a step that did not come back in time: run the same schedule once more with a much longer allowance, so that a slow
            # (heavily loaded) machine cannot turn into a violation; only a reproducible hang is reported
            r = execute(h, prefix, step_timeout=STEP_TIMEOUT * 10)
        out.append((prefix, r['points'], r['viol'], r['outcome'], r['trace'] if r['viol'] else None, r['events']))
    return out


def explore(harness: Harness, bound: int, max_exec: int | None = None):
    """Iterative context bounding over the prefix tree, level-synchronous and parallel.

    Returns dict(executions, violations [(prefix, trace, clause, detail)], outcomes Counter, max_points, capped).
    """
    import collections
    register(harness)
    wave = [[]]
    executions = 0
    outcomes = collections.Counter()
    violations = []
    max_points = 0
    capped = False
    events = {}
    while wave:
        if max_exec is not None and executions + len(wave) > max_exec:
            wave = wave[:max(0, max_exec - executions)]
            capped = True
            if not wave:
                break
        chunk = max(1, min(8, len(wave) // 32))
        tasks = [(harness.name, wave[i:i + chunk]) for i in range(0, len(wave), chunk)]
        nxt = []
        for res in pmap(_exec_task, tasks):
            for prefix, points, viol, outcome, trace, ev in res:
                executions += 1
                max_points = max(max_points, len(points))
                outcomes[repr(outcome)] += 1
                for n, c in ev.items():
                    events[n] = max(events.get(n, 0), c)
                for clause, detail in viol:
                    violations.append((prefix, trace, clause, detail))
                # children: deviate at every point after the prefix
                base = preemptions(points, len(prefix))
                cost = base
                for i in range(len(prefix), len(points)):
                    n_en, ch, still = points[i]
                    for alt in range(1, n_en):
                        c = cost + (1 if still else 0)
                        if c <= bound:
                            nxt.append([p[1] for p in points[:i]] + [alt])
                    # the default run took choice ch (=0) here: no extra cost
        if violations:
            break
        if capped:
            break
        wave = nxt
    return {'executions': executions, 'violations': violations, 'outcomes': outcomes, 'max_points': max_points,
            'capped': capped, 'events': events}
