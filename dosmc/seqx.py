"""E1: explicit-state breadth-first search over histories of public operations, on the real implementation.

state    = the history reaching it (live handles / SQLite connections cannot be copied; a state is re-created by
           replaying its history on a fresh container)
canon    = (configuration, on-disk canonical form (rawread.RawState.canon), per-handle observable state)
frontier = BFS by depth; per canonical state the Pareto-minimal (depth, variants used) pairs are expanded
oracles  = step checks on every transition (return values, before/after monitors) and state checks on every
           distinct canonical state (view battery, raw invariants, validate, ...); a transition that reaches a known
           canonical state must carry the same reference-model state as the history that discovered it.
"""
from __future__ import annotations

import os
import time

from . import common
from .common import EXEC_HORIZON, HORIZON_RETRY_FACTOR, ExecTimeout, InternalError, log, pmap, time_limit
from .rawread import RawState
from .report import Violation
from .views import handle_state
from .world import World, op_fingerprint


class SeqSpec:
    """What to explore and which oracles to run. Subclass / instantiate per property."""

    prop = 'C00'
    engine = 'seqx'
    nhandles = 1
    depth = 3
    max_variants = 1
    listdir_order = 'native'      # 'native' | 'sorted' | 'reversed'
    universe = None
    with_sources = True
    thresholds = None             # (_IN_SQL_MAX_LENGTH, _MAX_CHUNK_ITERATE_LENGTH) or None for the defaults
    tolerate_exceptions = False   # an operation may refuse (raise); only the state oracles judge
    horizon = EXEC_HORIZON        # seconds allowed for one execution (history replay + operation + oracles)

    def roots(self):
        """List of (name, config, prefix_history)."""
        return [('empty', {}, [])]

    def core_ops(self, root_name):
        return []

    def variant_ops(self, root_name):
        return []

    def enabled(self, hist, op):
        """Optional pruning of (history, op) pairs (must be justified in the check's docstring)."""
        return True

    def terminal(self, op):
        """Operations whose resulting states are checked but not expanded further."""
        return False

    # oracles ----------------------------------------------------------------------------------------------------
    def step_check(self, world: World, before: RawState, after: RawState, res, hist, model_before) -> list:
        """Per transition. Return list of (clause, detail)."""
        return []

    def state_check(self, world: World, raw: RawState, hist) -> list:
        """Per distinct canonical state. Return list of (clause, detail)."""
        return []

    def prepare(self, world: World):
        """Hook run after the world is created (e.g. set thresholds on handles)."""


_SPEC: SeqSpec | None = None   # set in the parent before the pool forks, inherited by workers


def _install_listdir(order: str):
    if getattr(os.listdir, '_dosmc', None) is not None and getattr(os.listdir, '_dosmc') != order:
        os.listdir = os.listdir._prev       # a previous pass of this process installed another order: undo it first
    if order == 'native' or getattr(os.listdir, '_dosmc', None) == order:
        return
    prev = os.listdir
    real = prev
    root = common.scratch_root()

    def listdir(path='.'):
        out = real(path)
        try:
            if str(os.fspath(path)).startswith(root):
                out = sorted(out, reverse=(order == 'reversed'))
        except TypeError:
            pass
        return out
    listdir._dosmc = order  # type: ignore[attr-defined]
    listdir._prev = prev  # type: ignore[attr-defined]
    os.listdir = listdir


def _make_world(spec: SeqSpec, root):
    name, config, prefix = root[:3]
    # internal batch-size thresholds (class attributes read through self): lowered so that the small states of the
    # search exercise the multi-chunk IN queries and the sorted full-scan strategy as well
    from disk_objectstore import Container
    Container._IN_SQL_MAX_LENGTH, Container._MAX_CHUNK_ITERATE_LENGTH = spec.thresholds or (950, 9500)
    w = World(config=config, nhandles=spec.nhandles, universe=spec.universe, with_sources=spec.with_sources)
    spec.prepare(w)
    for op in prefix:
        r = w.apply(op)
        if not r.ok:
            w.close()
            raise InternalError(f'root {name}: prefix operation {op} failed: {r.clause} {r.detail}')
    return w


def _canon(w: World, raw: RawState):
    from disk_objectstore import Container
    extra = ()
    if _SPEC is not None and _SPEC.tolerate_exceptions:
        # operations may refuse: the reference model is then not a function of the on-disk state, so it is part of the state
        extra = (w.model.state(), tuple(sorted(w.uncertain)))
    full = (tuple(sorted(w.config.items())), raw.canon(), tuple(handle_state(h) for h in w.handles), w.cur,
            tuple(sorted(w.damaged)), (Container._IN_SQL_MAX_LENGTH, Container._MAX_CHUNK_ITERATE_LENGTH)) + extra
    # the search only needs equality of canonical states: keep a 128-bit digest (the parent of a deep search holds hundreds of
    # thousands of states; the full tuples cost gigabytes)
    import hashlib
    return hashlib.blake2b(repr(full).encode(), digest_size=16).hexdigest()


def _replay(spec: SeqSpec, root, hist):
    """Fresh world with `hist` applied (no oracles: they ran when the history was first executed)."""
    w = _make_world(spec, root)
    for op in hist:
        w.apply(op)
    return w


def _expand_task(arg):
    """Worker: for one frontier history and a list of operations, execute history+op from scratch each time."""
    root, hist, ops = arg
    spec = _SPEC
    _install_listdir(spec.listdir_order)
    out = []
    for op in ops:
        for horizon in (spec.horizon, spec.horizon * HORIZON_RETRY_FACTOR):
            w = None
            try:
                with time_limit(horizon):
                    w = _replay(spec, root, hist)
                    before = RawState(w.root)
                    model_before = w.model.copy()
                    res = w.apply(op)
                    after = RawState(w.root)
                    viols = []
                    if not res.ok and not (spec.tolerate_exceptions and res.clause == 'unexpected-exception'):
                        viols.append((res.clause, res.detail))
                    canon = _canon(w, after)
                    mstate = w.model.state()
                    viols += spec.step_check(w, before, after, res, hist, model_before)   # may disturb the world: runs last
                    out.append((op, canon, mstate, viols))
                break
            except ExecTimeout as exc:
                if horizon != spec.horizon:
                    out.append((op, ('hang', repr(hist), repr(op)), None, [('hang', f'operation {op} after {hist}: {exc} (also on the retry)')]))
            finally:
                if w is not None:
                    w.close()
    return out


def _state_task(arg):
    root, hist, expect_canon = arg
    spec = _SPEC
    _install_listdir(spec.listdir_order)
    if isinstance(expect_canon, tuple) and expect_canon[0] == 'hang':
        return []
    for horizon in (spec.horizon, spec.horizon * HORIZON_RETRY_FACTOR):
        w = None
        try:
            with time_limit(horizon):
                w = _replay(spec, root, hist)
                raw = RawState(w.root)
                if expect_canon is not None and _canon(w, raw) != expect_canon:
                    raise InternalError(f'nondeterministic replay of {hist}: canonical state differs between two executions')
                return spec.state_check(w, raw, hist)
        except ExecTimeout as exc:
            if horizon != spec.horizon:
                return [('hang', f'state check after {hist}: {exc} (also on the retry)')]
        finally:
            if w is not None:
                w.close()
    return []


def _dominated(pairs, d, v):
    return any(d2 <= d and v2 <= v for d2, v2 in pairs)


def explore(spec: SeqSpec, report, deadline: float | None = None):
    """Run the search; fill report.coverage and report.violations."""
    # pylint: disable=too-many-locals,too-many-branches,too-many-statements
    global _SPEC
    _SPEC = spec
    common.shutdown_pool()     # make sure workers fork with the current _SPEC
    t0 = time.time()
    seen: dict = {}            # canon -> (model_state, [(depth, variants)], discovering history)
    transitions = 0
    states_checked = 0
    max_depth_done = 0
    capped = None
    samples = []
    per_root = {}
    n_step_viol = 0
    for root in spec.roots():
        rname = root[0]
        core = list(spec.core_ops(rname))
        variants = list(spec.variant_ops(rname))
        # optional per-root bounds: (name, config, prefix, {'depth': d, 'max_variants': v})
        r_depth = root[3].get('depth', spec.depth) if len(root) > 3 else spec.depth
        r_maxv = root[3].get('max_variants', spec.max_variants) if len(root) > 3 else spec.max_variants
        # root state
        w = _make_world(spec, root)
        try:
            raw = RawState(w.root)
            c0 = _canon(w, raw)
            ms0 = w.model.state()
        finally:
            w.close()
        frontier = []
        if c0 not in seen:
            seen[c0] = (ms0, [(0, 0)], (rname, []))
            for clause, detail in pmap(_state_task, [(root, [], c0)])[0]:
                if clause.startswith('__'):
                    report.stats.append((clause, detail))
                    continue
                report.add_violation(_viol(spec, clause, detail, rname, [], None))
            states_checked += 1
        frontier.append(([], 0))
        root_states = 1
        root_trans = 0
        for depth in range(1, r_depth + 1):
            if not frontier:
                break
            if deadline and time.time() > deadline:
                capped = f'time cap hit before depth {depth} of root {rname}'
                break
            tasks = []
            for hist, v in frontier:
                ops = [op for op in core if spec.enabled(hist, op)]
                if v < r_maxv:
                    ops += [op for op in variants if spec.enabled(hist, op)]
                # split so that the pool is kept busy but tasks are not tiny
                step = max(1, min(len(ops), 12))
                for i in range(0, len(ops), step):
                    tasks.append((root, hist, ops[i:i + step]))
            results = pmap(_expand_task, tasks, progress=f'{spec.prop} {rname} depth {depth}' if len(tasks) > 400 else None)
            nxt = []
            new_states = []
            varset = set(map(repr, variants))
            for (r_, hist, _ops), outs in zip(tasks, results):
                v = sum(1 for o in hist if repr(o) in varset)
                for op, canon, mstate, viols in outs:
                    transitions += 1
                    root_trans += 1
                    h2 = hist + [op]
                    v2 = v + (1 if repr(op) in varset else 0)
                    for clause, detail in viols:
                        n_step_viol += 1
                        report.add_violation(_viol(spec, clause, detail, rname, h2, op))
                    if isinstance(canon, tuple) and canon[0] == 'hang':
                        continue        # reported as a violation above; a hanging history is not expanded
                    if canon in seen:
                        ms, pairs, first = seen[canon]
                        if ms != mstate:
                            report.add_violation(_viol(
                                spec, 'model-divergence',
                                f'history {h2} reaches the same on-disk state as {first} but the reference models differ: '
                                f'{mstate} vs {ms}', rname, h2, op))
                        if not _dominated(pairs, depth, v2) and not spec.terminal(op):
                            pairs.append((depth, v2))
                            nxt.append((h2, v2))
                    else:
                        seen[canon] = (mstate, [(depth, v2)], (rname, h2))
                        if not spec.terminal(op):
                            nxt.append((h2, v2))
                        new_states.append((root, h2, canon))
                        root_states += 1
                        if len(samples) < 6 and depth == r_depth:
                            samples.append({'root': rname, 'history': h2})
            # state checks on the new canonical states
            if type(spec).state_check is SeqSpec.state_check:
                new_states = []         # no per-state oracle: nothing to run
            checks = pmap(_state_task, new_states,
                          progress=f'{spec.prop} {rname} depth {depth} state checks' if len(new_states) > 400 else None)
            for (_r, h2, _c), probs in zip(new_states, checks):
                states_checked += 1
                for clause, detail in probs:
                    if clause.startswith('__'):
                        report.stats.append((clause, detail))      # side channel for per-state statistics
                        continue
                    report.add_violation(_viol(spec, clause, detail, rname, h2, h2[-1] if h2 else None))
            max_depth_done = max(max_depth_done, depth)
            log(f'{spec.prop} root={rname} depth={depth}: frontier={len(frontier)} transitions={root_trans} '
                f'new_states={len(new_states)} total_states={len(seen)} violations={len(report.violations)} '
                f'({time.time() - t0:.0f}s)')
            frontier = nxt if depth < r_depth else []
            # stop early once a violation is found at this depth: the shortest counterexamples are the useful ones
            if report.violations and depth < r_depth and os.environ.get('DOSMC_KEEP_GOING') != '1':
                capped = f'stopped after depth {depth} of root {rname}: violations found (shortest first)'
                break
        per_root[rname] = {'states': root_states, 'transitions': root_trans, 'depth': r_depth, 'max_variants': r_maxv,
                           'core_ops': len(core), 'variant_ops': len(variants)}
        if capped:
            break
    common.shutdown_pool()
    cov = report.coverage
    cov['states'] = len(seen)
    cov['transitions'] = transitions
    cov['traces_validated_against_impl'] = transitions + states_checked
    cov['states_checked'] = states_checked
    cov['depth_bound'] = spec.depth
    cov['max_depth_completed'] = max_depth_done
    cov['max_variant_ops_per_history'] = spec.max_variants
    cov['per_root'] = per_root
    cov['exhaustive'] = capped is None
    if capped:
        cov['cap_hit'] = capped
    cov.setdefault('samples', samples or [{'root': r[0], 'history': r[2]} for r in spec.roots()][:3])
    return seen


def _nomerge_task(arg):
    """Execute one complete history from scratch: step checks on every transition, state check at the end."""
    root, hist = arg
    spec = _SPEC
    _install_listdir(spec.listdir_order)
    w = None
    out = []
    try:
        with time_limit(spec.horizon * HORIZON_RETRY_FACTOR):
            w = _make_world(spec, root)
            for i, op in enumerate(hist):
                before = RawState(w.root)
                mb = w.model.copy()
                res = w.apply(op)
                after = RawState(w.root)
                if not res.ok:
                    out.append((i, res.clause, res.detail))
                for clause, detail in spec.step_check(w, before, after, res, hist[:i], mb):
                    out.append((i, clause, detail))
                if out:
                    return out
            raw = RawState(w.root)
            for clause, detail in spec.state_check(w, raw, hist):
                out.append((len(hist) - 1, clause, detail))
    except ExecTimeout as exc:
        out.append((len(hist) - 1, 'hang', str(exc)))
    finally:
        if w is not None:
            w.close()
    return out


def explore_nomerge(spec: SeqSpec, report, ops, depth, root=None):
    """All histories over `ops` of length 1..depth (subject to spec.enabled), executed without any state merging.

    Guards against state the canonical form cannot see (e.g. process-level caches).  Adds to report.coverage.
    """
    import itertools
    global _SPEC
    _SPEC = spec
    common.shutdown_pool()
    root = root or spec.roots()[0]
    hists = []

    def rec(prefix):
        if prefix:
            hists.append(list(prefix))
        if len(prefix) == depth:
            return
        for op in ops:
            if spec.enabled(prefix, op):
                prefix.append(op)
                rec(prefix)
                prefix.pop()
    rec([])
    # only maximal histories need to be executed: every step is checked along the way
    maximal = [h for h in hists if len(h) == depth or not any(spec.enabled(h, op) for op in ops)]
    results = pmap(_nomerge_task, [(root, h) for h in maximal], progress=f'{spec.prop} no-merge pass' if len(maximal) > 2000 else None)
    n_viol = 0
    for h, out in zip(maximal, results):
        seen = set()
        for i, clause, detail in out:
            if clause in seen:
                continue
            seen.add(clause)
            n_viol += 1
            report.add_violation(_viol(spec, clause, detail, root[0], h[:i + 1], h[i]))
    common.shutdown_pool()
    cov = report.coverage
    cov['nomerge_histories'] = cov.get('nomerge_histories', 0) + len(maximal)
    cov['nomerge_depth'] = depth
    cov['traces_validated_against_impl'] = cov.get('traces_validated_against_impl', 0) + len(maximal)
    cov['transitions'] = cov.get('transitions', 0) + sum(len(h) for h in maximal)
    return len(maximal)


def _viol(spec, clause, detail, rname, hist, op):
    fp = {'engine': spec.engine, 'clause': clause}
    if op is not None:
        fp.update(op_fingerprint(op))
    return Violation(spec.prop, spec.engine, clause, {'root': rname, 'history': hist, 'spec': type(spec).__name__,
                                                      'listdir_order': spec.listdir_order},
                     detail, fp)


def replay_history(spec: SeqSpec, rname: str, hist):
    """Re-execute one history with all oracles after every step; returns list of (step, clause, detail)."""
    global _SPEC
    _SPEC = spec
    _install_listdir(spec.listdir_order)
    root = [r for r in spec.roots() if r[0] == rname][0]
    w = _make_world(spec, root)
    out = []
    try:
        for i, op in enumerate(hist):
            before = RawState(w.root)
            mb = w.model.copy()
            res = w.apply(op)
            after = RawState(w.root)
            if not res.ok:
                out.append((i, res.clause, res.detail))
            for clause, detail in spec.step_check(w, before, after, res, hist[:i], mb):
                out.append((i, clause, detail))
        # state check on a fresh replay (the step checks above may have disturbed handle state)
    finally:
        w.close()
    for i in range(len(hist) + 1):
        w = _replay(spec, root, hist[:i])
        try:
            raw = RawState(w.root)
            for clause, detail in spec.state_check(w, raw, hist[:i]):
                out.append((i - 1, clause, detail))
        finally:
            w.close()
    return out
