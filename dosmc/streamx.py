"""E4: the program space of a stream handed out by the container, explored to closure of the product state graph
(implementation stream x io.BytesIO reference), plus a depth-bounded pass without state merging.

A state is the program (list of stream operations) reaching it; streams cannot be cloned, so a program is executed on
a freshly obtained stream each time.  The canonical implementation state is taken generically from vars() of the
stream objects, recursively, so fields added by a refactoring are picked up automatically.
"""
from __future__ import annotations

import hashlib
import io
import os
import zlib

from .common import H, REAL, fresh_dir, maybe_collect, rmtree

from disk_objectstore import Container

FORMS = ('loose', 'packed', 'compressed', 'compressed+cache')
ACQ = ('single', 'bulk')


def make_content(n: int) -> bytes:
    """Deterministic, position-revealing content of length n (every 4-byte window is distinctive)."""
    out = bytearray()
    i = 0
    while len(out) < n:
        out += hashlib.sha256(b'dosmc-stream-%d' % i).digest() if n > 4096 else bytes([(37 * (len(out) + j) + 11) % 251 for j in range(32)])
        i += 1
    return bytes(out[:n])


def make_compressible(n: int) -> bytes:
    return (b'0123456789abcdefghij' * (n // 20 + 1))[:n]


def alphabet(n: int, big: bool = False):
    ks = sorted({0, 1, 2, 7, n, n + 5})
    ops = [('read', k) for k in ks] + [('read', None), ('read', -1), ('tell',)]
    s0 = sorted({0, 1, 7, max(n - 1, 0), n, n + 3, -1})
    s1 = sorted({-n - 1, -7, -1, 0, 1, 7, n + 1})
    s2 = sorted({-n - 2, -n, -7, -1, 0, 1})
    if big:
        for b in (262144, 524288):
            for d in (-1, 0, 1):
                ks.append(b + d)
                s0.append(b + d)
                s1.append(b + d)
                s1.append(-(b + d))
                s2.append(-(b + d))
        ops = [('read', k) for k in sorted(set(ks))] + [('read', None), ('tell',)]
    ops += [('seek', t, 0) for t in sorted(set(s0))]
    ops += [('seek', t, 1) for t in sorted(set(s1))]
    ops += [('seek', t, 2) for t in sorted(set(s2))]
    return ops


def canon_obj(o, depth=0):
    """Generic canonical form of the implementation-side stream state."""
    if depth > 6:
        return 'deep'
    if o is None or isinstance(o, (bool, int, str)):
        return o
    if isinstance(o, (bytes, bytearray)):
        return ('b', len(o), hashlib.sha256(bytes(o)).hexdigest()[:8])
    if isinstance(o, io.IOBase) or hasattr(o, '_f') and hasattr(o, '_rel'):
        try:
            return ('file', o.closed or o.tell())
        except Exception:  # pylint: disable=broad-except
            return ('file', 'closed')
    t = type(o).__name__
    if t == 'Decompress':
        return ('zdec', o.eof, len(o.unconsumed_tail), len(o.unused_data))
    if t == 'Container':
        return 'container'
    if hasattr(o, '__dict__'):
        return (t,) + tuple((k, canon_obj(v, depth + 1)) for k, v in sorted(vars(o).items()))
    return t


class Fixture:
    """A container holding object X of the given size in the given form, between two neighbours."""

    def __init__(self, n: int, form: str, compressible: bool = False):
        self.dir = fresh_dir('strm')
        self.root = os.path.join(self.dir, 'c')
        self.form = form
        self.content = make_compressible(n) if compressible else make_content(n)
        self.c = Container(self.root)
        self.c.init_container(pack_size_target=4 * 1024 ** 3)
        nb1, nb2 = b'<<NEIGHBOUR-BEFORE-' + b'b' * 40 + b'>>', b'<<NEIGHBOUR-AFTER-' + b'a' * 40 + b'>>'
        self.key = H(self.content)
        if form == 'loose':
            self.c.add_objects_to_pack([nb1, nb2])
            self.c.add_object(self.content)
        else:
            comp = form.startswith('compressed')
            self.c.add_objects_to_pack([nb1], compress=False)
            self.c.add_objects_to_pack([self.content], compress=comp)
            self.c.add_objects_to_pack([nb2], compress=comp)
            if form == 'compressed+cache':
                self.c.loosen_object(self.key)
        self.nb = [H(nb1), H(nb2)]
        self.loose_path = os.path.join(self.root, 'loose', self.key[:2], self.key[2:])

    def reset(self):
        if self.form == 'compressed' and os.path.exists(self.loose_path):
            REAL['os.remove'](self.loose_path)

    def close(self):
        self.c.close()
        rmtree(self.dir)


def run_program(fx: Fixture, acq: str, prog, want_canon=True):
    """Execute `prog` on a fresh stream, differentially against io.BytesIO.

    Returns (violation or None, canonical product state after the last op or None).
    """
    fx.reset()
    maybe_collect(2000)
    content = fx.content
    n = len(content)
    result = [None, None]

    def body(stream):
        ref = io.BytesIO(content)
        for i, op in enumerate(prog):
            v = step(stream, ref, op, n, content)
            if v is not None:
                result[0] = (i, op, v)
                return
        if want_canon:
            result[1] = (canon_obj(stream), ref.tell())

    if acq == 'single':
        with fx.c.get_object_stream(fx.key) as stream:
            body(stream)
    else:
        with fx.c.get_objects_stream_and_meta([fx.nb[0], fx.key, fx.nb[1]]) as triplets:
            for k, stream, _meta in triplets:
                if k == fx.key:
                    body(stream)
                else:
                    stream.read(3)
    return result[0], result[1]


def step(stream, ref, op, n, content):
    """One differential step. Returns a violation description or None. Keeps `ref` in sync after out-of-range seeks."""
    # pylint: disable=too-many-return-statements,too-many-branches
    kind = op[0]
    if kind == 'tell':
        a, b = stream.tell(), ref.tell()
        if a != b:
            return f'tell() returned {a}, in-memory file returns {b}'
        return None
    if kind == 'read':
        k = op[1]
        pos = ref.tell()
        try:
            got = stream.read() if k is None else stream.read(k)
        except Exception as exc:  # pylint: disable=broad-except
            return f'read({k}) at position {pos} raised {type(exc).__name__}: {exc}'
        exp = ref.read() if k is None else ref.read(k)
        if got != exp:
            where = content.find(got[:8]) if got else -1
            return (f'read({k}) at position {pos} returned {len(got)} bytes {got[:16]!r}..., expected {len(exp)} bytes '
                    f'{exp[:16]!r}... (returned bytes are {"from offset " + str(where) if where >= 0 else "not from this object"})')
        a = stream.tell()
        if a != ref.tell():
            return f'after read({k}) tell() is {a}, expected {ref.tell()}'
        return None
    # seek
    _, t, w = op
    before = ref.tell()
    target = t if w == 0 else (before + t if w == 1 else n + t)
    in_range = 0 <= target <= n
    try:
        ret = stream.seek(t, w)
        exc = None
    except Exception as e:  # pylint: disable=broad-except
        ret, exc = None, e
    if in_range:
        if exc is not None:
            return f'in-range seek({t},{w}) from {before} raised {type(exc).__name__}: {exc}'
        exp = ref.seek(t, w)
        if ret != exp:
            return f'seek({t},{w}) from {before} returned {ret}, in-memory file returns {exp}'
        a = stream.tell()
        if a != exp:
            return f'after seek({t},{w}) from {before} tell() is {a}, expected {exp}'
        return None
    # out of range: rejected (position unchanged), clamped, or same as BytesIO
    try:
        a = stream.tell()
    except Exception as e:  # pylint: disable=broad-except
        return f'after out-of-range seek({t},{w}) from {before}, tell() raised {type(e).__name__}: {e}'
    if exc is not None:
        if a != before:
            return f'out-of-range seek({t},{w}) from {before} raised {type(exc).__name__} but moved the position to {a}'
        return None
    if a < 0:
        return f'out-of-range seek({t},{w}) from {before} left a negative position {a}'
    if ret != a:
        return f'out-of-range seek({t},{w}) from {before} returned {ret} but tell() says {a}'
    ref.seek(a)
    return None


def explore_closure(fx: Fixture, acq: str, ops, max_states=20000, beyond=8):
    """BFS to closure of the canonical product state graph. Returns (states, transitions, violations, closed?)."""
    seen = {}
    n = len(fx.content)
    v0, c0 = run_program(fx, acq, [])
    if v0:
        return 1, 0, [([], v0)], True
    seen[c0] = []
    frontier = [[]]
    transitions = 0
    viols = []
    while frontier and len(seen) < max_states:
        nxt = []
        for prog in frontier:
            for op in ops:
                p2 = prog + [op]
                transitions += 1
                v, c = run_program(fx, acq, p2)
                if v:
                    viols.append((p2, v))
                    continue
                if c not in seen:
                    seen[c] = p2
                    # positions beyond the end are legal for real files (reads return b''); they all behave alike, so
                    # states further than `beyond` bytes past the end are recorded but not expanded (stated bound)
                    if c[1] <= n + beyond:
                        nxt.append(p2)
        frontier = nxt
        if viols:
            break      # shortest counterexamples first
    return len(seen), transitions, viols, not frontier


def explore_depth(fx: Fixture, acq: str, ops, depth):
    """All programs of exactly `depth` operations, no state merging. Returns (programs, violations)."""
    import itertools
    count = 0
    viols = []
    for prog in itertools.product(ops, repeat=depth):
        count += 1
        v, _ = run_program(fx, acq, list(prog), want_canon=False)
        if v:
            viols.append((list(prog), v))
            if len(viols) > 20:
                break
    return count, viols
