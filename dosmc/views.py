"""The view battery: every public read-only view of a container compared with the reference model (C02, C08)."""
from __future__ import annotations

from disk_objectstore import Container
from disk_objectstore.container import ObjectType
from disk_objectstore.exceptions import NotExistent

from .rawread import RawState


def battery(h: Container, model, raw: RawState | None, judge_counts: bool = True, tag: str = '') -> list[tuple[str, str]]:
    """Return a list of (clause, detail) disagreements between the views of handle `h` and the model."""
    # pylint: disable=too-many-branches,too-many-statements,too-many-locals
    probs: list[tuple[str, str]] = []
    ref = model.mapping()
    allk = list(model.keys) + [model.absent]

    def bad(clause, detail):
        probs.append((clause, f'{tag}{detail}'))

    try:
        got = h.has_objects(allk)
        exp = [k in ref for k in allk]
        if got != exp:
            bad('has_objects', f'has_objects={got} expected {exp}')
        for skip in (False, True):
            got = h.get_objects_content(allk, skip_if_missing=skip)
            exp = {k: ref.get(k) for k in allk} if not skip else dict(ref)
            if got != exp:
                bad('get_objects_content', f'skip_if_missing={skip}: got {_short(got)} expected {_short(exp)}')
        for k in allk:
            try:
                b = h.get_object_content(k)
                if k not in ref:
                    bad('get_object_content', f'absent key {k[:8]} returned {len(b)} bytes')
                elif b != ref[k]:
                    bad('get_object_content', f'key {k[:8]} returned {b[:40]!r} (len {len(b)}), expected {ref[k][:40]!r}')
            except NotExistent:
                if k in ref:
                    bad('get_object_content', f'NotExistent for stored key {k[:8]}')
            try:
                has = h.has_object(k)
                if has != (k in ref):
                    bad('has_object', f'has_object({k[:8]})={has}')
            except Exception as exc:  # pylint: disable=broad-except
                bad('has_object', f'{type(exc).__name__}: {exc}')
            try:
                meta = h.get_object_meta(k)
                if k not in ref:
                    bad('get_object_meta', f'absent key {k[:8]} has meta {meta}')
                else:
                    if meta.size != len(ref[k]):
                        bad('get_object_meta', f'key {k[:8]} size {meta.size} expected {len(ref[k])}')
                    exp_type = ObjectType.PACKED if k in model.packed else ObjectType.LOOSE
                    if judge_counts and meta.type != exp_type:
                        bad('get_object_meta', f'key {k[:8]} type {meta.type} expected {exp_type}')
                    if raw is not None and judge_counts and meta.type == ObjectType.PACKED:
                        rows = raw.rows_by_key().get(k, [])
                        if len(rows) == 1:
                            r = rows[0]
                            m = (meta.pack_id, meta.pack_offset, meta.pack_length, bool(meta.pack_compressed))
                            e = (r.pack_id, r.offset, r.length, r.compressed)
                            if m != e:
                                bad('get_object_meta', f'key {k[:8]} meta {m} but index row {e}')
            except NotExistent:
                if k in ref:
                    bad('get_object_meta', f'NotExistent for stored key {k[:8]}')
            # chunked single stream
            try:
                with h.get_object_stream_and_meta(k) as (stream, meta):
                    parts = []
                    while True:
                        chunk = stream.read(5)
                        if not chunk:
                            break
                        parts.append(chunk)
                    b = b''.join(parts)
                    if k not in ref:
                        bad('get_object_stream', f'absent key {k[:8]} streamed {len(b)} bytes')
                    elif b != ref[k] or meta.size != len(ref[k]):
                        bad('get_object_stream', f'key {k[:8]} chunked read gave {b[:40]!r} size {meta.size}')
            except NotExistent:
                if k in ref:
                    bad('get_object_stream', f'NotExistent for stored key {k[:8]}')
        for skip in (False, True):
            seen = []
            for k, meta in h.get_objects_meta(allk, skip_if_missing=skip):
                seen.append(k)
                if k in ref:
                    if meta.size != len(ref[k]):
                        bad('get_objects_meta', f'key {k[:8]} size {meta.size} expected {len(ref[k])}')
                elif meta.type != ObjectType.MISSING or meta.size is not None:
                    bad('get_objects_meta', f'absent key {k[:8]} reported as {meta}')
            exp = sorted(allk) if not skip else sorted(ref)
            if sorted(seen) != exp:
                bad('get_objects_meta', f'skip_if_missing={skip}: keys reported {len(seen)} (distinct {len(set(seen))}), expected {len(exp)}')
        with h.get_objects_stream_and_meta(allk, skip_if_missing=True) as triplets:
            seen = []
            for k, stream, meta in triplets:
                seen.append(k)
                b = stream.read()
                if k not in ref or b != ref[k] or meta.size != len(b):
                    bad('get_objects_stream_and_meta', f'key {k[:8]} read {b[:40]!r} size {meta.size}')
            if sorted(seen) != sorted(ref):
                bad('get_objects_stream_and_meta', f'reported {len(seen)} keys (distinct {len(set(seen))}), expected {len(ref)}')
        listed = list(h.list_all_objects())
        if sorted(listed) != sorted(ref):
            bad('list_all_objects', f'listed {len(listed)} keys (distinct {len(set(listed))}), expected {len(ref)}: '
                                    f'missing {sorted(set(ref) - set(listed))[:3]} extra {sorted(set(listed) - set(ref))[:3]}')
        if judge_counts:
            cnt = h.count_objects()
            exp_packs = len([p for p in raw.packs if not p.startswith('-')]) if raw is not None else cnt.pack_files
            if (cnt.loose, cnt.packed, cnt.pack_files) != (len(model.loose), len(model.packed), exp_packs):
                bad('count_objects', f'{cnt} expected loose={len(model.loose)} packed={len(model.packed)} pack_files={exp_packs}')
            ts = h.get_total_size()
            exp_packed = sum(len(ref[k]) for k in model.packed)
            exp_loose = sum(len(ref[k]) for k in model.loose)
            if ts.total_size_packed != exp_packed or ts.total_size_loose != exp_loose:
                bad('get_total_size', f'{ts} expected packed={exp_packed} loose={exp_loose}')
            if raw is not None:
                on_disk = sum(r.length for r in raw.rows)
                files = sum(len(b) for p, b in raw.packs.items() if not p.startswith('-'))
                if ts.total_size_packed_on_disk != on_disk or ts.total_size_packfiles_on_disk != files:
                    bad('get_total_size', f'{ts} expected packed_on_disk={on_disk} packfiles_on_disk={files}')
    except Exception as exc:  # pylint: disable=broad-except
        import traceback
        tb = traceback.extract_tb(exc.__traceback__)[-1]
        bad('view-exception', f'{type(exc).__name__}: {exc} at {tb.filename.split("/")[-1]}:{tb.lineno}')
    return probs


def _short(d):
    return {k[:6]: (None if v is None else (v[:12], len(v))) for k, v in d.items()}


_KNOWN_HANDLE_ATTRS = ('_folder', '_operation_session', '_config', '_current_pack_id')


def handle_state(h: Container):
    """Observable in-memory state of a handle (part of the canonical state), read without disturbing it."""
    sess = getattr(h, '_operation_session', None)
    if sess is None:
        s = ('nosession',)
    else:
        try:
            intx = bool(sess.in_transaction())
        except Exception:  # pylint: disable=broad-except
            intx = False
        if intx:
            # a transaction is open: its snapshot is already pinned (or will be by this very statement, which
            # is then equivalent to not being pinned at all: it sees the current state)
            from sqlalchemy import text
            try:
                vis = tuple(sorted(r[0] for r in sess.execute(text('SELECT hashkey FROM db_object'))))
            except Exception as exc:  # pylint: disable=broad-except
                vis = ('error', type(exc).__name__)
            s = ('pinned', vis)
        else:
            s = ('idle',)
    # any further scalar the handle remembers (a memoised configuration value, a counter, ...) is part of its state too:
    # two histories that leave different remembered values must not be merged (on the unchanged library this only tells apart whether `_container_session` is still None)
    extras = tuple(sorted((k, repr(v)) for k, v in vars(h).items()
                          if k not in _KNOWN_HANDLE_ATTRS and isinstance(v, (int, str, bool, float, bytes, type(None)))))
    if extras:
        return (getattr(h, '_current_pack_id', None), s, extras)
    return (getattr(h, '_current_pack_id', None), s)
