"""Operation alphabet, reference model and executor for histories of public operations (engine E1 and others).

An operation is a JSON-able tuple; `World.apply` executes it on the real library and on the reference model and
returns the step outcome. The reference model is deliberately boring: two sets of keys (loose, packed) over a fixed
universe of contents; contents are looked up by key in the universe.
"""
from __future__ import annotations

import io
import os

from .common import H, fresh_dir, rmtree, REAL

from disk_objectstore import Container, CompressMode
from disk_objectstore.exceptions import NotExistent
from disk_objectstore.utils import LazyOpener

# ----------------------------------------------------------------------------------------------------------------
# Universe of contents: chosen to collide and to differ in compressibility (DESIGN.md, E1)
UNIVERSE = [
    b'',
    b'A' * 12,
    bytes([0x9d, 0x1f, 0x53, 0xe2, 0x07, 0xb8, 0x6a, 0xc4, 0x31, 0xfd, 0x80, 0x2e, 0x75, 0xa9, 0x4b, 0xd6]),
    b'xyz' * 9,
]
ABSENT = b'this content is never stored'
ABSENT_IDX = 9

DEFAULT_CONFIG = {'hash_type': 'sha256', 'loose_prefix_len': 2, 'pack_size_target': 25,
                  'compression_algorithm': 'zlib+1'}

_MODES = {'NO': CompressMode.NO, 'YES': CompressMode.YES, 'KEEP': CompressMode.KEEP, 'AUTO': CompressMode.AUTO,
          'True': True, 'False': False}


def other_hash(hash_type: str) -> str:
    return 'sha1' if hash_type == 'sha256' else 'sha256'


class Model:
    """Reference model: which keys exist and where. Contents come from the universe."""

    def __init__(self, hash_type: str, universe=None):
        self.hash_type = hash_type
        self.universe = list(universe if universe is not None else UNIVERSE)
        self.keys = [H(u, hash_type) for u in self.universe]
        self.absent = H(ABSENT, hash_type)
        self.content = {k: u for k, u in zip(self.keys, self.universe)}
        self.loose: set[str] = set()
        self.packed: set[str] = set()

    def key(self, i: int) -> str:
        return self.absent if i == ABSENT_IDX else self.keys[i]

    def present(self) -> set[str]:
        return self.loose | self.packed

    def mapping(self) -> dict[str, bytes]:
        return {k: self.content[k] for k in self.present()}

    def state(self):
        return (tuple(sorted(self.loose)), tuple(sorted(self.packed)))

    def copy(self):
        m = Model.__new__(Model)
        m.__dict__.update(self.__dict__)
        m.loose = set(self.loose)
        m.packed = set(self.packed)
        return m


class StepResult:
    __slots__ = ('op', 'ok', 'clause', 'detail', 'retval', 'exc')

    def __init__(self, op):
        self.op = op
        self.ok = True
        self.clause = ''
        self.detail = ''
        self.retval = None
        self.exc = None

    def fail(self, clause, detail):
        if self.ok:
            self.ok = False
            self.clause = clause
            self.detail = detail


class World:
    """A scratch directory with one container under test, side source containers, handles and a model."""

    def __init__(self, config=None, nhandles: int = 1, universe=None, with_sources: bool = True):
        self.config = dict(DEFAULT_CONFIG)
        self.config.update(config or {})
        self.dir = fresh_dir('world')
        self.root = os.path.join(self.dir, 'c')
        self.model = Model(self.config['hash_type'], universe)
        c = Container(self.root)
        c.init_container(clear=False, **self.config)
        self.handles: list[Container] = [c]
        for _ in range(nhandles - 1):
            self.handles.append(Container(self.root))
        self.cur = 0
        self.sources: dict[str, Container] = {}
        self.with_sources = with_sources
        self._tmpfiles = 0
        self.damaged: set[str] = set()     # keys whose loose copy the harness damaged and that were not re-added yet
        self.dups: set[str] = set()        # keys with stray files in duplicates/ planted by the harness
        self.uncertain: set[str] = set()   # keys targeted by a deletion that raised half-way (may or may not exist)
        self.deleted_ok: set[str] = set()  # keys whose deletion returned normally and that were not stored again since

    # -- handles -----------------------------------------------------------------------------------------------
    @property
    def h(self) -> Container:
        return self.handles[self.cur]

    def close(self):
        for hh in self.handles:
            try:
                hh.close()
            except Exception:  # pylint: disable=broad-except
                pass
        for s in self.sources.values():
            try:
                s.close()
            except Exception:  # pylint: disable=broad-except
                pass
        rmtree(self.dir)

    def source(self, kind: str) -> Container:
        """Side container holding the whole universe in mixed forms; 'same' or 'other' hash type."""
        ht = self.config['hash_type'] if kind == 'same' else other_hash(self.config['hash_type'])
        kind = ht          # side containers are keyed by their hash type (the container under test can be re-initialised)
        if kind not in self.sources:
            s = Container(os.path.join(self.dir, f'src-{kind}'))
            s.init_container(hash_type=ht, pack_size_target=40, loose_prefix_len=2,
                             compression_algorithm='zlib+1')
            u = self.model.universe
            s.add_object(u[0])                                  # loose
            s.add_objects_to_pack([u[1]], compress=False)       # packed plain
            if len(u) > 2:
                s.add_objects_to_pack([u[2]], compress=True)    # packed compressed
            if len(u) > 3:
                s.add_object(u[3])
                s.add_objects_to_pack([u[3]], compress=True)    # both loose and packed
            for extra in u[4:]:
                s.add_object(extra)
            self.sources[kind] = s
        return self.sources[kind]

    def _tmpfile(self, data: bytes) -> str:
        self._tmpfiles += 1
        d = os.path.join(self.dir, 'inputs')
        os.makedirs(d, exist_ok=True)
        p = os.path.join(d, f'in{self._tmpfiles}')
        with REAL['open'](p, 'wb') as fh:
            fh.write(data)
        return p

    # -- operations --------------------------------------------------------------------------------------------
    def apply(self, op) -> StepResult:  # pylint: disable=too-many-branches,too-many-statements
        """Apply one operation to the implementation and the model; check return value / expected exception."""
        res = StepResult(op)
        m = self.model
        kind = op[0]
        # optional trailing ('kw', (name, value), ...) element: extra keyword arguments (e.g. do_fsync=False)
        kw = {}
        if len(op) > 1 and isinstance(op[-1], (tuple, list)) and len(op[-1]) > 0 and op[-1][0] == 'kw':
            kw = {k: v for k, v in op[-1][1:]}
            op = tuple(op[:-1])
            if kw.get('callback') == 'REC':
                # a progress callback (the library calls it both positionally and by keyword)
                calls = []
                kw['callback'] = lambda action=None, value=None: calls.append(action)
        try:
            if kind == 'add':
                r = self.h.add_object(m.universe[op[1]])
                res.retval = r
                if r != m.keys[op[1]]:
                    res.fail('return-key', f'add_object returned {r}, expected {m.keys[op[1]]}')
                m.loose.add(m.keys[op[1]])
                self.damaged.discard(m.keys[op[1]])
            elif kind == 'adds':
                r = self.h.add_streamed_object(io.BytesIO(m.universe[op[1]]))
                res.retval = r
                if r != m.keys[op[1]]:
                    res.fail('return-key', f'add_streamed_object returned {r}, expected {m.keys[op[1]]}')
                m.loose.add(m.keys[op[1]])
                self.damaged.discard(m.keys[op[1]])
            elif kind == 'topack':
                _, batch, compress, no_holes, twice = op
                r = self.h.add_objects_to_pack([m.universe[i] for i in batch], compress=compress,
                                               no_holes=no_holes, no_holes_read_twice=twice, **kw)
                res.retval = r
                exp = [m.keys[i] for i in batch]
                if r != exp:
                    res.fail('return-key', f'add_objects_to_pack returned {r}, expected {exp}')
                m.packed.update(exp)
            elif kind == 'stopack':
                _, batch, compress, no_holes, twice, open_streams = op
                if open_streams:
                    from pathlib import Path
                    streams = [LazyOpener(Path(self._tmpfile(m.universe[i]))) for i in batch]
                else:
                    streams = [io.BytesIO(m.universe[i]) for i in batch]
                r = self.h.add_streamed_objects_to_pack(streams, compress=compress, open_streams=open_streams,
                                                        no_holes=no_holes, no_holes_read_twice=twice, **kw)
                res.retval = r
                exp = [m.keys[i] for i in batch]
                if r != exp:
                    res.fail('return-key', f'add_streamed_objects_to_pack returned {r}, expected {exp}')
                m.packed.update(exp)
            elif kind == 'sotopack':
                _, i, compress, no_holes, twice = op
                r = self.h.add_streamed_object_to_pack(io.BytesIO(m.universe[i]), compress=compress,
                                                       no_holes=no_holes, no_holes_read_twice=twice, **kw)
                res.retval = r
                if r != m.keys[i]:
                    res.fail('return-key', f'add_streamed_object_to_pack returned {r}, expected {m.keys[i]}')
                m.packed.add(m.keys[i])
            elif kind == 'pack':
                _, mode, per_pack, validate = op
                newly = m.loose - m.packed
                self.h.pack_all_loose(compress=_MODES[mode], clean_loose_per_pack=per_pack,
                                      validate_objects=validate, **kw)
                m.packed |= m.loose
                if per_pack:
                    m.loose -= newly
            elif kind == 'clean':
                orphan = [k for k in self.dups if k not in m.present()]
                if orphan:
                    # a stray duplicate of an object that does not exist: clean_storage is documented to refuse
                    from disk_objectstore.exceptions import InconsistentContent
                    try:
                        self.h.clean_storage(vacuum=op[1])
                        res.fail('clean-orphan-duplicate', 'clean_storage accepted a duplicate of a missing object')
                    except InconsistentContent:
                        pass
                else:
                    self.h.clean_storage(vacuum=op[1])
                    m.loose -= m.packed
                    self.damaged -= m.packed
                self.dups = {n.partition('.')[0] for n in REAL['os.listdir'](os.path.join(self.root, 'duplicates'))}
            elif kind == 'repack':
                self.h.repack(compress_mode=_MODES[op[1]], **kw)
            elif kind == 'repack_pack':
                self.h.repack_pack(str(op[1]), compress_mode=_MODES[op[2]])
            elif kind == 'delete':
                req = [m.key(i) for i in op[1]]
                r = self.h.delete_objects(req)
                res.retval = sorted(r)
                exp = sorted(set(req) & m.present())
                if sorted(r) != exp:
                    res.fail('delete-return', f'delete_objects returned {sorted(r)}, expected {exp}')
                m.loose -= set(req)
                m.packed -= set(req)
                self.dups -= set(req)
                self.damaged -= set(req)
                self.deleted_ok |= set(req)
            elif kind == 'loosen':
                k = m.key(op[1])
                if k in m.present():
                    p = self.h.loosen_object(k)
                    res.retval = str(p)
                    m.loose.add(k)
                else:
                    try:
                        self.h.loosen_object(k)
                        res.fail('loosen-absent', 'loosen_object of an absent key did not raise NotExistent')
                    except NotExistent:
                        pass
            elif kind == 'import':
                _, idxs, compress, budget, srckind = op
                src = self.source(srckind)
                src_model_keys = [H(u, src.hash_type) for u in m.universe]
                req = [H(ABSENT, src.hash_type) if i == ABSENT_IDX else src_model_keys[i] for i in idxs]
                mapping = self.h.import_objects(req, src, compress=compress, target_memory_bytes=budget, **kw)
                res.retval = mapping
                same = srckind == 'same'
                for i in set(idxs):
                    if i == ABSENT_IDX:
                        continue
                    dk = m.keys[i]
                    sk = src_model_keys[i]
                    if sk in mapping and mapping[sk] != dk:
                        res.fail('import-mapping', f'mapping[{sk[:8]}]={mapping[sk][:8]} expected {dk[:8]}')
                    if same:
                        if dk not in m.present():
                            m.packed.add(dk)
                    else:
                        m.packed.add(dk)
                extra = set(mapping) - set(req)
                if extra:
                    res.fail('import-mapping', f'mapping mentions keys that were not requested: {sorted(extra)}')
            elif kind == 'reopen':
                self.h.close()
                self.handles[self.cur] = Container(self.root)
            elif kind == 'reinit':
                try:
                    self.h.init_container(**self.config)
                    res.fail('reinit', 'init_container on an initialised container did not raise FileExistsError')
                except FileExistsError:
                    pass
            elif kind == 'reinit_clear':
                # init_container(clear=True): the documented way to start over with an empty container, through a live handle;
                # ('reinit_clear', 'other-config') starts over with the other hash type and a flat/sharded loose folder swapped
                if len(op) > 1 and op[1] == 'other-config':
                    self.config['hash_type'] = other_hash(self.config['hash_type'])
                    self.config['loose_prefix_len'] = 0 if self.config['loose_prefix_len'] else 2
                if len(op) > 1 and op[1] == 'other-target':
                    # start over with another pack size target through the same live handle (anything the handle remembered
                    # about the old configuration must go); handles other than the acting one are reopened afterwards
                    self.config['pack_size_target'] = 60 if self.config['pack_size_target'] != 60 else 25
                self.h.init_container(clear=True, **self.config)
                if len(op) > 1 and op[1] == 'other-target':
                    for j in range(len(self.handles)):
                        if j != self.cur:
                            self.handles[j].close()
                            self.handles[j] = Container(self.root)
                self.model = Model(self.config['hash_type'], self.model.universe)
                m = self.model
                self.damaged.clear()
                self.dups.clear()
                self.deleted_ok.clear()
                self.uncertain.clear()
            elif kind == 'switch':
                self.cur = op[1]
            elif kind == 'damage':
                # environment event: the loose copy of object op[1] is damaged (op[2]: 'overwrite' | 'truncate' | 'extend')
                k = m.keys[op[1]]
                pl = self.config['loose_prefix_len']
                p = os.path.join(self.root, 'loose', k[:pl], k[pl:]) if pl else os.path.join(self.root, 'loose', k)
                how = op[2] if len(op) > 2 else 'overwrite'
                data = m.content[k]
                new = {'overwrite': b'#' + data[1:] if data else b'#', 'truncate': data[:-1] if data else b'+', 'extend': data + b'+',
                       'empty': b'' if data else b'+'}[how]
                with REAL['open'](p, 'wb') as fh:
                    fh.write(new)
                self.damaged.add(k)
            elif kind == 'dup':
                # environment event: a stray duplicate file of object op[1] (as ObjectWriter._store_duplicate_copy leaves on Windows)
                k = m.keys[op[1]]
                self._tmpfiles += 1
                with REAL['open'](os.path.join(self.root, 'duplicates', f'{k}.{self._tmpfiles:032x}'), 'wb') as fh:
                    fh.write(m.content[k])
                self.dups.add(k)
            elif kind == 'on':
                # ('on', handle index, inner op): apply the inner operation through the given handle
                self.cur = op[1]
                inner = self.apply(op[2])
                res.retval, res.exc = inner.retval, inner.exc
                if not inner.ok:
                    res.fail(inner.clause, f'handle {op[1]}: {inner.detail}')
            elif kind == 'q':
                self._query(res, op[1], op[2] if len(op) > 2 else None)
            else:
                raise ValueError(f'unknown operation {op!r}')
            self.deleted_ok -= m.present()
        except Exception as exc:  # pylint: disable=broad-except
            self.deleted_ok -= m.present()
            if kind != 'delete' and not (kind == 'on' and op[2][0] == 'delete'):
                self.deleted_ok.clear()      # an operation that raised may have stored some of its objects
            res.exc = exc
            res.fail('unexpected-exception', f'{kind} raised {type(exc).__name__}: {exc}')
            inner = op[2] if kind == 'on' else op
            if inner[0] == 'delete':
                self.uncertain |= {m.key(i) for i in inner[1]}
        return res


    def _query(self, res, qkind, idx):  # pylint: disable=too-many-branches
        """A read-only view through the current handle, compared with the model (presence and bytes)."""
        m = self.model
        h = self.h
        ref = m.mapping()
        allk = list(m.keys) + [m.absent]
        who = f'handle {self.cur} query {qkind}{"" if idx is None else idx}: '
        if qkind == 'has':
            got = h.has_objects(allk)
            exp = [k in ref for k in allk]
            if got != exp:
                res.fail('q-has_objects', who + f'has_objects={got} expected {exp}')
        elif qkind == 'get':
            k = m.key(idx)
            try:
                b = h.get_object_content(k)
                if k not in ref or b != ref[k]:
                    res.fail('q-get_object_content', who + f'returned {b[:30]!r} for {"absent" if k not in ref else "stored"} key {k[:8]}')
            except NotExistent:
                if k in ref:
                    res.fail('q-get_object_content', who + f'NotExistent for acknowledged key {k[:8]}')
        elif qkind in ('bulk', 'bulkall'):
            skip = qkind == 'bulk'
            got = h.get_objects_content(allk, skip_if_missing=skip)
            exp = dict(ref) if skip else {k: ref.get(k) for k in allk}
            if got != exp:
                res.fail('q-get_objects_content', who + f'skip_if_missing={skip}: keys {sorted(x[:6] for x in got)} '
                                                        f'expected {sorted(x[:6] for x in exp)} (or wrong bytes)')
        elif qkind == 'meta':
            got = {}
            for k, meta in h.get_objects_meta(allk):
                got[k] = meta.size
            exp = {k: len(v) for k, v in ref.items()}
            if got != exp:
                res.fail('q-get_objects_meta', who + f'sizes {got} expected {exp}')
        elif qkind == 'meta1':
            k = m.key(idx)
            try:
                meta = h.get_object_meta(k)
                if k not in ref or meta.size != len(ref[k]):
                    res.fail('q-get_object_meta', who + f'meta {meta} for key {k[:8]} (expected size {len(ref.get(k, b""))})')
            except NotExistent:
                if k in ref:
                    res.fail('q-get_object_meta', who + f'NotExistent for acknowledged key {k[:8]}')
        elif qkind == 'stream':
            k = m.key(idx)
            try:
                with h.get_object_stream_and_meta(k) as (stream, meta):
                    b = stream.read(4) + stream.read()
                    if k not in ref or b != ref[k] or meta.size != len(b):
                        res.fail('q-get_object_stream_and_meta', who + f'read {b[:30]!r} meta.size {meta.size} for key {k[:8]}')
            except NotExistent:
                if k in ref:
                    res.fail('q-get_object_stream_and_meta', who + f'NotExistent for acknowledged key {k[:8]}')
        elif qkind == 'streams':
            seen = {}
            with h.get_objects_stream_and_meta(allk) as trip:
                for k, stream, meta in trip:
                    seen[k] = (stream.read(), meta.size)
            exp = {k: (v, len(v)) for k, v in ref.items()}
            if seen != exp:
                res.fail('q-get_objects_stream_and_meta', who + f'got keys {sorted(x[:6] for x in seen)} expected {sorted(x[:6] for x in exp)} (or wrong bytes/size)')
        elif qkind == 'seekstreams':
            # bulk streams, each one used with a seek relative to the end (compressed objects switch to their re-loosened copy)
            with h.get_objects_stream_and_meta(allk) as trip:
                seen = {}
                for k, stream, meta in trip:
                    n = len(ref.get(k, b''))
                    stream.seek(-min(2, n), 2)
                    tail = stream.read()
                    stream.seek(0)
                    seen[k] = (tail, stream.read())
            exp = {k: (v[-min(2, len(v)):] if v else b'', v) for k, v in ref.items()}
            # seeking in a compressed packed object re-loosens it (the documented cache): that copy is now part of the state
            pl = self.config['loose_prefix_len']
            for k in m.packed:
                p = os.path.join(self.root, 'loose', k[:pl], k[pl:]) if pl else os.path.join(self.root, 'loose', k)
                if os.path.exists(p):
                    m.loose.add(k)
            if seen != exp:
                res.fail('q-seeking-streams', who + f'after seek(-2, 2) / seek(0): got {dict((k[:6], (t, len(a))) for k, (t, a) in seen.items())} '
                                                    f'expected {dict((k[:6], (t, len(a))) for k, (t, a) in exp.items())}')
        elif qkind == 'list':
            listed = sorted(h.list_all_objects())
            if listed != sorted(ref):
                res.fail('q-list_all_objects', who + f'listed {[x[:6] for x in listed]} expected {sorted(x[:6] for x in ref)}')
        elif qkind == 'count':
            h.count_objects()       # recorded, not judged (C08 lists existence checks, reads, metadata and listings)
        else:
            raise ValueError(f'unknown query {qkind}')


def op_fingerprint(op) -> dict:
    """Normalised description of an operation for known-finding matching."""
    kind = op[0]
    if kind == 'on':
        fp = op_fingerprint(op[2])
        fp['handle'] = op[1]
        return fp
    fp = {'op': kind}
    if kind == 'q':
        fp['query'] = op[1]
    if kind in ('topack', 'stopack'):
        fp.update(compress=op[2], no_holes=op[3], read_twice=op[4])
    elif kind == 'sotopack':
        fp.update(compress=op[2], no_holes=op[3], read_twice=op[4])
    elif kind == 'pack':
        fp.update(mode=op[1], per_pack=op[2])
    elif kind in ('repack',):
        fp.update(mode=op[1])
    elif kind == 'import':
        fp.update(src=op[4])
    return fp


# ----------------------------------------------------------------------------------------------------------------
# Alphabets

def core_alphabet():
    """A0: the default-parameter forms of every public operation."""
    ops = []
    for i in range(4):
        ops.append(('add', i))
    ops += [
        ('topack', (1,), False, False, True),
        ('topack', (2, 3), False, False, True),
        ('pack', 'NO', False, True),
        ('clean', False),
        ('repack', 'KEEP'),
        ('delete', (1,)),
        ('delete', (2, 3)),
        ('loosen', 1),
        ('import', (0, 1, 2, 3), False, 104857600, 'same'),
        ('import', (2, 3), False, 104857600, 'other'),
        ('reopen',),
    ]
    return ops


def variant_alphabet():
    """A1: each differs from a core operation in parameters (deviations)."""
    ops = []
    ops.append(('adds', 2))
    for batch in ((0,), (1, 1, 3), (2, 1), (3, 0, 3)):
        ops.append(('topack', batch, False, False, True))
    for batch in ((1,), (1, 2), (1, 1, 3), (2, 1)):
        for compress in (False, True):
            for nh, tw in ((False, True), (True, True), (True, False)):
                if batch == (1,) and not compress and not nh:
                    continue  # that one is in A0
                ops.append(('topack', batch, compress, nh, tw))
    ops.append(('stopack', (1, 2), False, False, True, True))
    ops.append(('stopack', (2, 1, 2), True, True, False, True))
    ops.append(('stopack', (3, 1), False, True, True, False))
    ops.append(('sotopack', 3, True, False, True))
    ops.append(('sotopack', 1, False, True, False))
    for mode in ('NO', 'YES', 'AUTO', 'KEEP', 'True', 'False'):
        for per_pack in (False, True):
            if mode == 'NO' and not per_pack:
                continue
            ops.append(('pack', mode, per_pack, True))
    ops.append(('pack', 'YES', True, False))
    ops.append(('clean', True))
    for mode in ('YES', 'NO', 'AUTO'):
        ops.append(('repack', mode))
    ops.append(('repack_pack', 0, 'YES'))
    ops.append(('repack_pack', 1, 'KEEP'))
    ops.append(('delete', (0, 1, 2, 3)))
    ops.append(('delete', (ABSENT_IDX,)))
    ops.append(('delete', (3, 3, ABSENT_IDX)))
    ops.append(('loosen', 2))
    ops.append(('loosen', ABSENT_IDX))
    ops.append(('import', (1, 3), True, 104857600, 'same'))
    ops.append(('import', (0, 1, 2, 3, ABSENT_IDX), False, 1, 'other'))
    ops.append(('import', (2, 3, 3), True, 20, 'other'))
    ops.append(('import', (0, 2), False, 13, 'same'))
    ops.append(('reinit',))
    ops.append(('reinit_clear',))
    ops.append(('reinit_clear', 'other-config'))
    cb = ('kw', ('callback', 'REC'))
    ops.append(('pack', 'AUTO', True, True, cb))
    ops.append(('topack', (1, 1, 3), True, True, True, cb))
    ops.append(('sotopack', 3, False, False, True, ('kw', ('callback', 'REC'), ('callback_size_hint', 27))))
    ops.append(('repack', 'YES', cb))
    ops.append(('import', (0, 1, 2, 3), True, 13, 'same', cb))
    return ops
