"""Operation alphabet, reference model and executor for histories of public operations (engine E1 and others).

An operation is a JSON-able tuple; `World.apply` executes it on the real library and on the reference model and
returns the step outcome. The reference model is deliberately boring: two sets of keys (loose, packed) over a fixed
universe of contents; contents are looked up by key in the universe.
"""
from __future__ import annotations

import io
import os

from .common import H, fresh_dir, rmtree, REAL

from disk_objectstore import Container, CompressMode
from disk_objectstore.exceptions import NotExistent
from disk_objectstore.utils import LazyOpener

# ----------------------------------------------------------------------------------------------------------------
# Universe of contents: chosen to collide and to differ in compressibility (DESIGN.md, E1)
UNIVERSE = [
    b'',
    b'A' * 12,
    bytes([0x9d, 0x1f, 0x53, 0xe2, 0x07, 0xb8, 0x6a, 0xc4, 0x31, 0xfd, 0x80, 0x2e, 0x75, 0xa9, 0x4b, 0xd6]),
    b'xyz' * 9,
]
ABSENT = b'this content is never stored'
ABSENT_IDX = 9

DEFAULT_CONFIG = {'hash_type': 'sha256', 'loose_prefix_len': 2, 'pack_size_target': 25,
                  'compression_algorithm': 'zlib+1'}

_MODES = {'NO': CompressMode.NO, 'YES': CompressMode.YES, 'KEEP': CompressMode.KEEP, 'AUTO': CompressMode.AUTO,
          'True': True, 'False': False}


def other_hash(hash_type: str) -> str:
    return 'sha1' if hash_type == 'sha256' else 'sha256'


class Model:
    """Reference model: which keys exist and where. Contents come from the universe."""

    def __init__(self, hash_type: str, universe=None):
        self.hash_type = hash_type
        self.universe = list(universe if universe is not None else UNIVERSE)
        self.keys = [H(u, hash_type) for u in self.universe]
        self.absent = H(ABSENT, hash_type)
        self.content = {k: u for k, u in zip(self.keys, self.universe)}
        self.loose: set[str] = set()
        self.packed: set[str] = set()

    def key(self, i: int) -> str:
        return self.absent if i == ABSENT_IDX else self.keys[i]

    def present(self) -> set[str]:
        return self.loose | self.packed

    def mapping(self) -> dict[str, bytes]:
        return {k: self.content[k] for k in self.present()}

    def state(self):
        return (tuple(sorted(self.loose)), tuple(sorted(self.packed)))

    def copy(self):
        m = Model.__new__(Model)
        m.__dict__.update(self.__dict__)
        m.loose = set(self.loose)
        m.packed = set(self.packed)
        return m


class StepResult:
    __slots__ = ('op', 'ok', 'clause', 'detail', 'retval', 'exc')

    def __init__(self, op):
        self.op = op
        self.ok = True
        self.clause = ''
        self.detail = ''
        self.retval = None
        self.exc = None

    def fail(self, clause, detail):
        if self.ok:
            self.ok = False
            self.clause = clause
            self.detail = detail


class World:
    """A scratch directory with one container under test, side source containers, handles and a model."""

    def __init__(self, config=None, nhandles: int = 1, universe=None, with_sources: bool = True):
        self.config = dict(DEFAULT_CONFIG)
        self.config.update(config or {})
        self.dir = fresh_dir('world')
        self.root = os.path.join(self.dir, 'c')
        self.model = Model(self.config['hash_type'], universe)
        c = Container(self.root)
        c.init_container(clear=False, **self.config)
        self.handles: list[Container] = [c]
        for _ in range(nhandles - 1):
            self.handles.append(Container(self.root))
        self.cur = 0
        self.sources: dict[str, Container] = {}
        self.with_sources = with_sources
        self._tmpfiles = 0

    # -- handles -----------------------------------------------------------------------------------------------
    @property
    def h(self) -> Container:
        return self.handles[self.cur]

    def close(self):
        for hh in self.handles:
            try:
                hh.close()
            except Exception:  # pylint: disable=broad-except
                pass
        for s in self.sources.values():
            try:
                s.close()
            except Exception:  # pylint: disable=broad-except
                pass
        rmtree(self.dir)

    def source(self, kind: str) -> Container:
        """Side container holding the whole universe in mixed forms; 'same' or 'other' hash type."""
        if kind not in self.sources:
            ht = self.config['hash_type'] if kind == 'same' else other_hash(self.config['hash_type'])
            s = Container(os.path.join(self.dir, f'src-{kind}'))
            s.init_container(hash_type=ht, pack_size_target=40, loose_prefix_len=2,
                             compression_algorithm='zlib+1')
            u = self.model.universe
            s.add_object(u[0])                                  # loose
            s.add_objects_to_pack([u[1]], compress=False)       # packed plain
            if len(u) > 2:
                s.add_objects_to_pack([u[2]], compress=True)    # packed compressed
            if len(u) > 3:
                s.add_object(u[3])
                s.add_objects_to_pack([u[3]], compress=True)    # both loose and packed
            for extra in u[4:]:
                s.add_object(extra)
            self.sources[kind] = s
        return self.sources[kind]

    def _tmpfile(self, data: bytes) -> str:
        self._tmpfiles += 1
        d = os.path.join(self.dir, 'inputs')
        os.makedirs(d, exist_ok=True)
        p = os.path.join(d, f'in{self._tmpfiles}')
        with REAL['open'](p, 'wb') as fh:
            fh.write(data)
        return p

    # -- operations --------------------------------------------------------------------------------------------
    def apply(self, op) -> StepResult:  # pylint: disable=too-many-branches,too-many-statements
        """Apply one operation to the implementation and the model; check return value / expected exception."""
        res = StepResult(op)
        m = self.model
        kind = op[0]
        # optional trailing ('kw', (name, value), ...) element: extra keyword arguments (e.g. do_fsync=False)
        kw = {}
        if len(op) > 1 and isinstance(op[-1], (tuple, list)) and len(op[-1]) > 0 and op[-1][0] == 'kw':
            kw = {k: v for k, v in op[-1][1:]}
            op = tuple(op[:-1])
        try:
            if kind == 'add':
                r = self.h.add_object(m.universe[op[1]])
                res.retval = r
                if r != m.keys[op[1]]:
                    res.fail('return-key', f'add_object returned {r}, expected {m.keys[op[1]]}')
                m.loose.add(m.keys[op[1]])
            elif kind == 'adds':
                r = self.h.add_streamed_object(io.BytesIO(m.universe[op[1]]))
                res.retval = r
                if r != m.keys[op[1]]:
                    res.fail('return-key', f'add_streamed_object returned {r}, expected {m.keys[op[1]]}')
                m.loose.add(m.keys[op[1]])
            elif kind == 'topack':
                _, batch, compress, no_holes, twice = op
                r = self.h.add_objects_to_pack([m.universe[i] for i in batch], compress=compress,
                                               no_holes=no_holes, no_holes_read_twice=twice, **kw)
                res.retval = r
                exp = [m.keys[i] for i in batch]
                if r != exp:
                    res.fail('return-key', f'add_objects_to_pack returned {r}, expected {exp}')
                m.packed.update(exp)
            elif kind == 'stopack':
                _, batch, compress, no_holes, twice, open_streams = op
                if open_streams:
                    from pathlib import Path
                    streams = [LazyOpener(Path(self._tmpfile(m.universe[i]))) for i in batch]
                else:
                    streams = [io.BytesIO(m.universe[i]) for i in batch]
                r = self.h.add_streamed_objects_to_pack(streams, compress=compress, open_streams=open_streams,
                                                        no_holes=no_holes, no_holes_read_twice=twice, **kw)
                res.retval = r
                exp = [m.keys[i] for i in batch]
                if r != exp:
                    res.fail('return-key', f'add_streamed_objects_to_pack returned {r}, expected {exp}')
                m.packed.update(exp)
            elif kind == 'sotopack':
                _, i, compress, no_holes, twice = op
                r = self.h.add_streamed_object_to_pack(io.BytesIO(m.universe[i]), compress=compress,
                                                       no_holes=no_holes, no_holes_read_twice=twice, **kw)
                res.retval = r
                if r != m.keys[i]:
                    res.fail('return-key', f'add_streamed_object_to_pack returned {r}, expected {m.keys[i]}')
                m.packed.add(m.keys[i])
            elif kind == 'pack':
                _, mode, per_pack, validate = op
                newly = m.loose - m.packed
                self.h.pack_all_loose(compress=_MODES[mode], clean_loose_per_pack=per_pack,
                                      validate_objects=validate, **kw)
                m.packed |= m.loose
                if per_pack:
                    m.loose -= newly
            elif kind == 'clean':
                self.h.clean_storage(vacuum=op[1])
                m.loose -= m.packed
            elif kind == 'repack':
                self.h.repack(compress_mode=_MODES[op[1]])
            elif kind == 'repack_pack':
                self.h.repack_pack(str(op[1]), compress_mode=_MODES[op[2]])
            elif kind == 'delete':
                req = [m.key(i) for i in op[1]]
                r = self.h.delete_objects(req)
                res.retval = sorted(r)
                exp = sorted(set(req) & m.present())
                if sorted(r) != exp:
                    res.fail('delete-return', f'delete_objects returned {sorted(r)}, expected {exp}')
                m.loose -= set(req)
                m.packed -= set(req)
            elif kind == 'loosen':
                k = m.key(op[1])
                if k in m.present():
                    p = self.h.loosen_object(k)
                    res.retval = str(p)
                    m.loose.add(k)
                else:
                    try:
                        self.h.loosen_object(k)
                        res.fail('loosen-absent', 'loosen_object of an absent key did not raise NotExistent')
                    except NotExistent:
                        pass
            elif kind == 'import':
                _, idxs, compress, budget, srckind = op
                src = self.source(srckind)
                src_model_keys = [H(u, src.hash_type) for u in m.universe]
                req = [H(ABSENT, src.hash_type) if i == ABSENT_IDX else src_model_keys[i] for i in idxs]
                mapping = self.h.import_objects(req, src, compress=compress, target_memory_bytes=budget, **kw)
                res.retval = mapping
                same = srckind == 'same'
                for i in set(idxs):
                    if i == ABSENT_IDX:
                        continue
                    dk = m.keys[i]
                    sk = src_model_keys[i]
                    if sk in mapping and mapping[sk] != dk:
                        res.fail('import-mapping', f'mapping[{sk[:8]}]={mapping[sk][:8]} expected {dk[:8]}')
                    if same:
                        if dk not in m.present():
                            m.packed.add(dk)
                    else:
                        m.packed.add(dk)
                extra = set(mapping) - set(req)
                if extra:
                    res.fail('import-mapping', f'mapping mentions keys that were not requested: {sorted(extra)}')
            elif kind == 'reopen':
                self.h.close()
                self.handles[self.cur] = Container(self.root)
            elif kind == 'reinit':
                try:
                    self.h.init_container(**self.config)
                    res.fail('reinit', 'init_container on an initialised container did not raise FileExistsError')
                except FileExistsError:
                    pass
            elif kind == 'switch':
                self.cur = op[1]
            else:
                raise ValueError(f'unknown operation {op!r}')
        except Exception as exc:  # pylint: disable=broad-except
            res.exc = exc
            res.fail('unexpected-exception', f'{kind} raised {type(exc).__name__}: {exc}')
        return res


def op_fingerprint(op) -> dict:
    """Normalised description of an operation for known-finding matching."""
    kind = op[0]
    fp = {'op': kind}
    if kind in ('topack', 'stopack'):
        fp.update(compress=op[2], no_holes=op[3], read_twice=op[4])
    elif kind == 'sotopack':
        fp.update(compress=op[2], no_holes=op[3], read_twice=op[4])
    elif kind == 'pack':
        fp.update(mode=op[1], per_pack=op[2])
    elif kind in ('repack',):
        fp.update(mode=op[1])
    elif kind == 'import':
        fp.update(src=op[4])
    return fp


# ----------------------------------------------------------------------------------------------------------------
# Alphabets

def core_alphabet():
    """A0: the default-parameter forms of every public operation."""
    ops = []
    for i in range(4):
        ops.append(('add', i))
    ops += [
        ('topack', (1,), False, False, True),
        ('topack', (2, 3), False, False, True),
        ('pack', 'NO', False, True),
        ('clean', False),
        ('repack', 'KEEP'),
        ('delete', (1,)),
        ('delete', (2, 3)),
        ('loosen', 1),
        ('import', (0, 1, 2, 3), False, 104857600, 'same'),
        ('reopen',),
    ]
    return ops


def variant_alphabet():
    """A1: each differs from a core operation in parameters (deviations)."""
    ops = []
    ops.append(('adds', 2))
    for batch in ((0,), (1, 1, 3), (2, 1), (3, 0, 3)):
        ops.append(('topack', batch, False, False, True))
    for batch in ((1,), (1, 2), (1, 1, 3), (2, 1)):
        for compress in (False, True):
            for nh, tw in ((False, True), (True, True), (True, False)):
                if batch == (1,) and not compress and not nh:
                    continue  # that one is in A0
                ops.append(('topack', batch, compress, nh, tw))
    ops.append(('stopack', (1, 2), False, False, True, True))
    ops.append(('stopack', (2, 1, 2), True, True, False, True))
    ops.append(('stopack', (3, 1), False, True, True, False))
    ops.append(('sotopack', 3, True, False, True))
    ops.append(('sotopack', 1, False, True, False))
    for mode in ('NO', 'YES', 'AUTO', 'KEEP', 'True', 'False'):
        for per_pack in (False, True):
            if mode == 'NO' and not per_pack:
                continue
            ops.append(('pack', mode, per_pack, True))
    ops.append(('pack', 'YES', True, False))
    ops.append(('clean', True))
    for mode in ('YES', 'NO', 'AUTO'):
        ops.append(('repack', mode))
    ops.append(('repack_pack', 0, 'YES'))
    ops.append(('repack_pack', 1, 'KEEP'))
    ops.append(('delete', (0, 1, 2, 3)))
    ops.append(('delete', (ABSENT_IDX,)))
    ops.append(('delete', (3, 3, ABSENT_IDX)))
    ops.append(('loosen', 2))
    ops.append(('loosen', ABSENT_IDX))
    ops.append(('import', (1, 3), True, 104857600, 'same'))
    ops.append(('import', (0, 1, 2, 3, ABSENT_IDX), False, 1, 'other'))
    ops.append(('import', (2, 3, 3), True, 20, 'other'))
    ops.append(('import', (0, 2), False, 13, 'same'))
    ops.append(('reinit',))
    return ops
