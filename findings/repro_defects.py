"""Stand-alone reproductions of the genuine defects found in disk-objectstore (see DESIGN.md section 6).

Usage: /venv/bin/python repro_defects.py [D1 D2 ...]   -> prints PRESENT/absent per defect; exit 1 if any is present.
Uses only the public API of the library (plus os/fcntl wrappers to observe system calls).
"""
import hashlib, io, os, shutil, sys, tempfile, fcntl

from disk_objectstore import Container
from disk_objectstore import utils as U

H = lambda b, t='sha256': hashlib.new(t, b).hexdigest()


def fresh(**kw):
    d = tempfile.mkdtemp(prefix='dosrepro-', dir='/dev/shm' if os.path.isdir('/dev/shm') else None)
    c = Container(d)
    c.init_container(**kw)
    return d, c


def D1():
    """pack_all_loose commits index rows for bytes that were never fsynced (use_fullsync=True path)."""
    d, c = fresh()
    try:
        c.add_object(b'x' * 100)
        synced = []
        real = os.fsync
        os.fsync = lambda fd: (synced.append(os.readlink(f'/proc/self/fd/{fd}')), real(fd))[1]
        try:
            c.pack_all_loose()
        finally:
            os.fsync = real
        return not any(p.endswith('/packs/0') for p in synced), f'fsync targets during pack_all_loose: {synced}'
    finally:
        c.close(); shutil.rmtree(d)


def D2():
    """one leaked descriptor on packs/ per packing call."""
    d, c = fresh()
    try:
        def census():
            n = 0
            for f in os.listdir('/proc/self/fd'):
                try:
                    if os.readlink(f'/proc/self/fd/{f}').split(' ')[0] in (d + '/packs',) or os.readlink(f'/proc/self/fd/{f}').startswith(d + '/packs/'):
                        n += 1
                except OSError:
                    pass
            return n
        before = census()
        for i in range(4):
            c.add_objects_to_pack([b'obj%d' % i])
        after = census()
        return after > before, f'descriptors on packs/: before={before} after 4 calls={after}'
    finally:
        c.close(); shutil.rmtree(d)


def D3():
    """list_all_objects on a handle with a stale snapshot misses objects packed+cleaned by another handle."""
    d, c = fresh()
    try:
        k = [c.add_object(b'one'), c.add_object(b'two')]
        h = Container(d)
        assert h.has_objects(k) == [True, True]
        list(h.list_all_objects())           # pins h's index snapshot
        c.pack_all_loose(); c.clean_storage()
        got = sorted(h.list_all_objects())
        h.close()
        return got != sorted(k), f'listed {len(got)} of 2 acknowledged objects'
    finally:
        c.close(); shutil.rmtree(d)


def D4():
    """backup step 5 copies the live packs.idx-wal/-shm next to the dumped index."""
    from disk_objectstore import backup_utils as B
    d, c = fresh()
    dest = tempfile.mkdtemp(prefix='dosrepro-bk-', dir='/dev/shm')
    try:
        keys = [c.add_object(b'A' * 50), c.add_object(b'B' * 60)]
        reader = Container(d); reader.has_objects(keys)   # keeps the WAL alive
        mgr = B.BackupManager(dest)
        calls = []
        real = mgr.call_rsync
        def call_rsync(src, dst, **kw):
            calls.append(str(src))
            if len(calls) == 4:      # just before step 5: a client packs and cleans
                c.pack_all_loose(); c.clean_storage()
            return real(src, dst, **kw)
        mgr.call_rsync = call_rsync
        mgr.backup_auto_folders(lambda path, prev: B.backup_container(mgr, Container(d), path, prev))
        bk = [p for p in os.listdir(dest) if p.startswith('backup_')][0]
        b = Container(os.path.join(dest, bk))
        bad = []
        for k, v in zip(keys, [b'A' * 50, b'B' * 60]):
            try:
                if b.get_object_content(k) != v: bad.append('wrong bytes')
            except Exception as e:
                bad.append(type(e).__name__)
        side = [f for f in os.listdir(os.path.join(dest, bk)) if f.startswith('packs.idx-')]
        b.close(); reader.close()
        return bool(bad), f'backup completed; reads of pre-existing objects: {bad or "ok"}; side files copied: {side}'
    finally:
        c.close(); shutil.rmtree(d); shutil.rmtree(dest)


def D5():
    """no_holes=True, no_holes_read_twice=False: known-then-new in one call indexes the new object at a wrong offset."""
    d, c = fresh()
    try:
        a, b_, cc = b'A' * 12, b'B' * 7, b'C' * 5
        c.add_objects_to_pack([a])
        keys = c.add_objects_to_pack([a, b_, a, cc], no_holes=True, no_holes_read_twice=False)
        got = [c.get_object_content(k) for k in keys]
        return got != [a, b_, a, cc], f'read back {got}'
    finally:
        c.close(); shutil.rmtree(d)


def D6():
    """import_objects, different hash types + one-shot generator + callback imports nothing."""
    d, c = fresh(hash_type='sha256')
    d2, c2 = fresh(hash_type='sha1')
    try:
        keys = [c.add_object(b'one'), c.add_object(b'two')]
        m = c2.import_objects((k for k in keys), c, callback=lambda action, value: None)
        return len(m) != 2, f'mapping has {len(m)} entries, destination holds {c2.count_objects()}'
    finally:
        c.close(); c2.close(); shutil.rmtree(d); shutil.rmtree(d2)


def D7():
    """PackedObjectReader.seek(t, 2): wrong return value; out-of-range leaves a negative position and leaks neighbour bytes."""
    d, c = fresh()
    try:
        ks = c.add_objects_to_pack([b'NEIGHBOUR-', b'0123456789', b'-AFTER'])
        msgs = []
        with c.get_object_stream(ks[1]) as s:
            r = s.seek(-3, 2)
            if r != 7: msgs.append(f'seek(-3,2) returned {r}, BytesIO returns 7')
            try:
                s.seek(-15, 2)
            except ValueError:
                pass            # a clean rejection is allowed ...
            except Exception as e:
                msgs.append(f'seek(-15,2) raised {type(e).__name__}')
            t = s.tell()        # ... as long as the position is intact
            data = s.read()
            if t < 0 or data != b'0123456789'[t:]:
                msgs.append(f'after out-of-range seek tell()={t}, read()={data!r}')
        return bool(msgs), '; '.join(msgs)
    finally:
        c.close(); shutil.rmtree(d)


def D8():
    """delete_objects with a repeated key whose object has a stray duplicate file raises FileNotFoundError half-way."""
    d, c = fresh()
    try:
        k = c.add_objects_to_pack([b'packed'])[0]
        k2 = c.add_object(b'other')
        # the state ObjectWriter._store_duplicate_copy leaves behind on Windows
        with open(os.path.join(d, 'duplicates', f'{k}.{"0" * 32}'), 'wb') as fh:
            fh.write(b'packed')
        try:
            r = c.delete_objects([k, k2, k])
            return sorted(r) != sorted([k, k2]), f'returned {len(r)} keys'
        except FileNotFoundError as exc:
            return True, f'raised FileNotFoundError; objects left: {c.count_objects()}'
    finally:
        c.close(); shutil.rmtree(d)


def D9():
    """incremental backup hard-links the previous backup's stale packs.idx when the new dump has the same size and the
    same modification second (rsync quick check); objects packed+cleaned between the two backups are lost."""
    from disk_objectstore import backup_utils as B
    d, c = fresh()
    dest = tempfile.mkdtemp(prefix='dosrepro-bk-', dir='/dev/shm')
    try:
        old = c.add_objects_to_pack([b'already packed'])[0]
        k = c.add_object(b'loose at the time of the first backup')
        mgr = B.BackupManager(dest)
        mgr.backup_auto_folders(lambda path, prev: B.backup_container(mgr, Container(d), path, prev))
        first = os.readlink(os.path.join(dest, 'last-backup'))
        c.pack_all_loose(); c.clean_storage()                   # between the two backups
        real = B._sqlite_backup
        def dump(src, dst):                                     # the clock answer: same second as the previous index
            real(src, dst)
            t = int(os.stat(os.path.join(dest, first, 'packs.idx')).st_mtime) + 0.5
            os.utime(dst, (t, t))
        B._sqlite_backup = dump
        try:
            mgr.backup_auto_folders(lambda path, prev: B.backup_container(mgr, Container(d), path, prev))
        finally:
            B._sqlite_backup = real
        second = os.readlink(os.path.join(dest, 'last-backup'))
        b = Container(os.path.join(dest, second))
        try:
            ok = b.get_object_content(k) == b'loose at the time of the first backup'
            msg = 'read back ok'
        except Exception as e:
            ok, msg = False, type(e).__name__
        same_inode = os.stat(os.path.join(dest, first, 'packs.idx')).st_ino == os.stat(os.path.join(dest, second, 'packs.idx')).st_ino
        b.close()
        return not ok, f'second backup: object packed+cleaned between the backups: {msg}; index hard-linked to the first backup: {same_inode}'
    finally:
        c.close(); shutil.rmtree(d); shutil.rmtree(dest)


def D11():
    """repack through a handle with a stale index snapshot deletes a pack that another handle has filled."""
    d, c = fresh()
    try:
        a = Container(d)
        a.count_objects()                       # pins a's snapshot (empty index)
        keys = c.add_objects_to_pack([b'one', b'two'])
        a.repack()
        a.close()
        f = Container(d)
        try:
            ok = [f.get_object_content(k) for k in keys] == [b'one', b'two']
            msg = 'read back ok'
        except Exception as e:
            ok, msg = False, f'{type(e).__name__}'
        f.close()
        return not ok, f'after repack through the stale handle: {msg}; pack files: {sorted(os.listdir(os.path.join(d, "packs")))}'
    finally:
        c.close(); shutil.rmtree(d)


if __name__ == '__main__':
    which = sys.argv[1:] or ['D1', 'D2', 'D3', 'D4', 'D5', 'D6', 'D7', 'D8', 'D9', 'D11']
    present = 0
    for name in which:
        bad, msg = globals()[name]()
        print(f'{name}: {"PRESENT" if bad else "absent "}  {msg}')
        present += bool(bad)
    sys.exit(1 if present else 0)
