#!/bin/bash
# usage: confirm_seeded.sh <srcdir with patch.diff demo.py meta.json> <name>
# Confirms a seeded defect in a scratch worktree: patch applies, baseline passes with it, demo fails with it and passes
# without it. On success copies it to /verif/seeded/<name>/ with a 'confirmed' record in meta.json.
set -u
src="$1"; name="$2"
wt=/tmp/confirm/$name
rm -rf "$wt"; mkdir -p /tmp/confirm
git -C /repo worktree add -q --detach "$wt" HEAD || exit 2
cleanup() { git -C /repo worktree remove --force "$wt" 2>/dev/null; rm -rf "$wt"; }
trap cleanup EXIT
git -C "$wt" apply "$src/patch.diff" || { echo "$name: PATCH DOES NOT APPLY"; exit 1; }
base_out=$(/venv/bin/python /verif/tools/run_baseline.py "$wt" -n 6 2>&1 | tail -3)
base_ok=$(echo "$base_out" | grep -c "not passing: 0")
(cd /tmp && PYTHONPATH="$wt" timeout 600 /venv/bin/python "$src/demo.py" > /tmp/confirm/$name.demo_with.log 2>&1); rc_with=$?
git -C "$wt" checkout -q -- .
(cd /tmp && PYTHONPATH="$wt" timeout 600 /venv/bin/python "$src/demo.py" > /tmp/confirm/$name.demo_without.log 2>&1); rc_without=$?
echo "$name: baseline_ok=$base_ok demo_with_change_rc=$rc_with demo_without_rc=$rc_without"
if [[ "$base_ok" == "1" && "$rc_with" != "0" && "$rc_without" == "0" ]]; then
  dst=/verif/seeded/$name; mkdir -p "$dst"
  cp "$src/patch.diff" "$src/demo.py" "$dst/"
  /venv/bin/python - "$src/meta.json" "$dst/meta.json" "$rc_with" <<'PY'
import json, sys
m = json.load(open(sys.argv[1]))
m['confirmed'] = {'by': 'tools/confirm_seeded.sh in a scratch worktree of /repo HEAD', 'baseline_358_pass_with_change': True,
                  'demo_exit_with_change': int(sys.argv[3]), 'demo_exit_without_change': 0}
json.dump(m, open(sys.argv[2], 'w'), indent=1)
PY
  echo "$name: CONFIRMED -> $dst"
else
  echo "$name: NOT CONFIRMED"; echo "$base_out"
fi
