#!/venv/bin/python
"""Generate /verif/MANIFEST.json from the table below and validate it against the schema."""
import json, os, sys
ROOT = os.path.dirname(os.path.dirname(os.path.abspath(__file__)))
PY = '/venv/bin/python'

# id -> (engine, category, technique, text, note, design_ref) ; only built checks are listed
CHECKS = {
 'C02': ('seqx', 'model_checking',
         'explicit-state BFS over operation histories on the real library, canonical-state merging, dict reference model',
         'Every history over the operation alphabet up to the depth/deviation bound is executed on the real Container from several root states; '
         'each distinct canonical state gets the full view battery (fresh and acting handle) against a dict model; one pass runs with the internal batch-size thresholds lowered so that the small states also exercise multi-chunk IN queries and the sorted full scan. Exhaustive within the bound.',
         'Bounded depth and 4-content universe; SQLite/zlib/filesystem trusted; operations outside the alphabet not covered.', '5 C02, 3 E1'),
 'C03': ('seqx', 'model_checking',
         'explicit-state BFS over operation histories; per-state raw invariants with sqlite3+zlib only',
         'Same exhaustive history space as C02; every distinct on-disk state is read without the library (sqlite3, slices, zlib, hashlib) and must satisfy the index/pack/loose invariants and reproduce every model object. A second pass explores sequential histories through two handles (a handle with a pinned index snapshot running maintenance operations after the other handle wrote), where operations may refuse but no acknowledged object may be lost.',
         'Same bounds as C02; stdlib sqlite3/zlib stand in for the CLI tools of the documented recovery script.', '5 C03, 2.2'),
 'C05': ('crashx', 'fault_enumeration',
         'exhaustive crash-point and torn-write enumeration: kill image at every mutating I/O call boundary, and at three cut points inside every library write, of every operation variant, on the real library',
         'One instrumented run per scenario yields the OS-visible image before every mutating call (and after return); every image is checked raw (sqlite3+zlib) and through a fresh handle. Exhaustive over boundaries for the listed operation variants and pre-states. A second instrumented run per scenario yields, for every write of >= 2 bytes to a pack / loose / sandbox file, the images in which only 1 byte, half, or all but one byte of that write reached the file (torn writes).',
         'Kills inside one write(2) only at those three cut points; kills inside SQLite are not enumerated; SQLite WAL recovery trusted; tmpfs semantics.', '5 C05, 3 E3'),
 'C06': ('crashx', 'fault_enumeration',
         'exhaustive crash-point enumeration with the adversarial power-loss image (only last-fsynced bytes of every regular file survive)',
         'Same boundaries as C05; each image keeps only the bytes present at the last fsync of each inode (tracked through renames and hard links), while directory operations and committed SQLite transactions survive; same oracle as C05.',
         'Storage model as stated in the property; reordering between directory operations not modelled; F_FULLFSYNC path not executable on Linux.', '5 C06, 3 E3'),
 'C17': ('crashx', 'fault_enumeration',
         'exhaustive single-fault injection: every faultable I/O call of every operation variant x fault kind, one per execution, on the real library',
         'Each execution fails exactly one call (EIO; half-written+ENOSPC for writes; EACCES for opens; a failing close; OperationalError for commits); afterwards raw state, fresh handle, the faulted handle (reads and clean_storage through it), completion-or-raise, a rerun to the normal result and - for an interrupted repack - a retry that may refuse but must not destroy are checked.',
         'Single faults only; faults inside SQLite / on reads not injected; injection at the Python call boundary.', '5 C17, 3 E3'),
 'C07': ('streamx', 'model_checking',
         'explicit-state BFS over stream programs to closure of the (implementation stream state x io.BytesIO) product graph; differential oracle',
         'For every (object size, storage form, acquisition path) all programs over the read/seek/tell alphabet are explored until no new canonical product state appears (programs of unbounded length over that alphabet), plus all programs up to a depth bound without merging; every step is compared with io.BytesIO.',
         'Alphabet values and object sizes are fixed; states more than 8 bytes past the end are recorded but not expanded; CPython io/zlib trusted.', '5 C07, 3 E4'),
 'C04': ('sched', 'model_checking',
         'stateless schedule exploration of real threads under a baton scheduler, iterative pre-emption bounding, on the real library',
         'Every schedule with at most the stated number of pre-emptions of each harness (writers x readers x one packer; scheduling points at each visible file-system call / SQL statement) is executed; acknowledged-object visibility and byte equality are checked per reader call and on the final state.',
         'Threads stand in for processes; at most 3 actors; pre-emption bound 1-2 (quick) / 2-3 (thorough); SQLite-internal steps are atomic.', '5 C04, 3 E2'),
 'C08': ('seqx', 'model_checking',
         'explicit-state BFS over sequential multi-handle histories; canonical state includes each handle\'s pinned index snapshot; queries are judged transitions',
         'All histories up to the depth bound over 2 (quick) / 3 (thorough) handles on one folder: adds through any handle, every query kind through any handle as the first query in each state, pack/clean through the packing handle; every query (incl. seeking bulk streams) must report all acknowledged objects with the right bytes/sizes; a second pass lowers the internal IN-batch size to 1.',
         'Depth-bounded; 2-content universe; count_objects not judged (not in the statement).', '5 C08, 3 E1'),
 'C09': ('seqx', 'model_checking',
         'explicit-state BFS over write/pack/clean/import histories with recurring contents + hole/count monitors; second exhaustive pass without state merging',
         'Histories in which contents recur in every position (within a batch, across batches and forms, incl. the empty object) x compress/no_holes/read_twice, with damage events followed by a re-add; hole and object-count monitors on every transition; a no-merge pass guards against state the canonical form cannot see.',
         'Depth/deviation bounded; damage events are always followed by a re-add of the damaged content.', '5 C09, 3 E1'),
 'C13': ('seqx', 'model_checking',
         'explicit-state BFS over histories without repack through two handles; before/after comparison of every pack file and index row on every transition',
         'Every transition of the bounded history space (small and default pack_size_target) is checked for: referenced bytes unchanged, no shrinking below the last referenced byte, closed packs byte-identical, consecutive numbering, every non-final pack full.',
         'Depth/deviation bounded; 4-content universe.', '5 C13, 3 E1'),
 'C11': ('seqx', 'model_checking',
         'explicit-state BFS with a phased alphabet: bounded build phase, then delete_objects(S) for every subset S, then repack(mode) for every mode',
         'From every state of the build phase (all storage forms incl. synthesised stray duplicates) all 32 subsets of present/absent keys (+ a repeated key) are deleted and all four repack modes applied; return value, views (battery per distinct state), leftover duplicates and exact pack layout after repack are checked.',
         'Build phase depth-bounded; duplicates synthesised by the harness (Windows-only producer).', '5 C11, 3 E1'),
 'C12': ('seqx', 'model_checking',
         'explicit-state BFS (validate on every distinct state) + exhaustive single-damage enumeration (every bit flip / truncation / index-field perturbation) on every state of a smaller BFS',
         '(a) validate() must be clean on every distinct state of the C02-style search; (b) on every state of a compact search every single damage is applied in place and validate() must not be clean whenever an independent reader finds some object harmed.',
         'Single damages only; ground truth resolves objects index-first like the library; depth-bounded.', '5 C12'),
 'C18': ('seqx', 'model_checking',
         'explicit-state BFS with a /proc/self/fd census monitor on every transition (+ repeat-the-operation differential, + after close); open-file monitor over a request lattice; tracemalloc budget over a size lattice',
         'Descriptor half: exhaustive over bounded histories. Open-file half: complete product of container shapes and request styles under an interposed open/close monitor. Fault half: for six operations every single I/O fault is injected and after close() no descriptor may remain. Memory half: enumeration (exploration level) of streaming paths x sizes with a peak budget and a no-growth criterion.',
         'GC disabled during the census; memory half covers sizes 1-16 (48) MiB only.', '5 C18'),
 'C01': ('grids', 'model_checking',
         'complete enumeration of a finite lattice: byte strings x write paths x read modes x configurations, on the real library',
         'Every byte string over a 3-letter alphabet up to length 5 (7) and every length straddling the internal chunk sizes x 4 content kinds is stored through every write path (incl. short-read streams, batches with repeats, no_holes variants, loose-then-pack) under the configuration product and read back through every read mode; nothing is sampled.',
         'Strings outside the lattice and lengths above 2 MiB are not covered; hashlib is the oracle.', '5 C01, 3 E5'),
 'C10': ('grids', 'model_checking',
         'complete enumeration: initial store x zlib level x pack target x every chain of three repack modes, with per-step monitors',
         'Seven contents (empty .. 300 KiB half/half) stored 8 ways, then all 64 chains of repack(KEEP/YES/NO/AUTO); after every step content, compression-flag rule, size, stored-length extent (raw reader) and size totals are checked.',
         'Fixed contents; chains of length 3; AUTO only constrains content and bookkeeping.', '5 C10'),
 'C14': ('grids', 'model_checking',
         'complete Cartesian product of import parameters (hash types, forms, pre-state, compress, memory budget, pack target, key set, iterable kind, callback)',
         'Every combination is executed once on the real library and judged on: presence and bytes under the destination hash, mapping, unique rows, untouched pre-existing rows/files, no rewrite of held objects (same hash), ignored absent keys.',
         'Five fixed object sizes; single import call per case.', '5 C14'),
 'C16': ('grids', 'model_checking',
         'complete enumeration: all request sequences up to length 3 (4) over 6 keys x lowered threshold grid x bulk operation; all pairs of sorted-unique sequences for the merge helpers; all unsorted inputs',
         'Bulk results are compared with the single-key API for every request sequence under every (IN-batch, full-scan) threshold pair, around the real thresholds (949..9501 keys, 999..2001 rows), and the helpers against set algebra for all 4096 pairs; unsorted inputs must be rejected.',
         'Thresholds lowered via instance attributes; universe of 6 keys.', '5 C16'),
 'C15': ('sched', 'model_checking',
         'exhaustive enumeration of all placements of client operations over the gaps of the real backup procedure (real rsync / sqlite3 backup / mv), two rounds, both environment answers for the index timestamp; thorough: threads under the baton scheduler with pre-emption bound 2',
         'Every non-decreasing placement of each client script (add, pack with/without per-pack cleaning, clean, direct-to-pack) over the six gaps of backup_container, and over the gaps of an incremental backup on top of a first one, is executed for real; every completed backup is opened as a container and checked (pre-existing objects, exposed keys, validate). Both tiers also run backup and client as real threads under the baton scheduler (client pre-emptible at each visible I/O call, pre-emption bound 1 quick / 2 thorough).',
         'Local destinations; rsync binary trusted; one rsync call = one step in the quick tier; client operations atomic in the quick tier.', '5 C15, 3 E2'),
}

NOT_YET = {
}

def main():
    props = [json.loads(l) for l in open(os.path.join(ROOT, 'properties.jsonl'))]
    checks = []
    na = []
    for p in props:
        pid = p['id']
        if pid in CHECKS:
            eng, cat, tech, text, note, ref = CHECKS[pid]
            checks.append({
                'property_id': pid,
                'quick_cmd': f'{PY} -m dosmc check {pid} --tier quick',
                'thorough_cmd': f'{PY} -m dosmc check {pid} --tier thorough',
                'evidence_file': f'/verif/evidence/{pid}.json',
                'replay_cmd_template': f'{PY} -m dosmc replay {{path}}',
                'engine': eng,
                'level_claimed': {'category': cat, 'text': text, 'design_ref': f'DESIGN.md section {ref}'},
                'level_note': note,
                'technique': tech,
            })
        else:
            na.append({'property_id': pid, 'reason': NOT_YET.get(pid, 'check not built yet in this session (model-checking plan in DESIGN.md section 5); not claimed until it runs')})
    man = {
        'version': 1,
        'setup_cmd': f'{PY} -c "import dosmc, disk_objectstore, sqlalchemy; print(\'dosmc ready\')"',
        'hooks': {
            'guard': 'DISK_OBJECTSTORE_VERIF',
            'enable': 'no source hooks are needed: all seams (open, os.*, fcntl, SQLAlchemy events) are interposed from outside the repository at run time by dosmc.iolayer; the guard variable is unused by the library',
            'baseline_off_cmd': 'cd /repo && /venv/bin/python -m pytest -ra -q -p no:cacheprovider --timeout=900 --continue-on-collection-errors',
            'source_commits': [],
            'add_only': True,
        },
        'engines': [
            {'name': 'seqx', 'path': 'dosmc/seqx.py', 'serves_properties': [k for k, v in CHECKS.items() if v[0] == 'seqx'],
             'kind_free_text': 'explicit-state BFS over operation histories executed on the real library'},
            {'name': 'sched', 'path': 'dosmc/sched.py', 'serves_properties': [k for k, v in CHECKS.items() if v[0] == 'sched'],
             'kind_free_text': 'stateless pre-emption-bounded exploration of real threads under a baton scheduler'},
            {'name': 'crashx', 'path': 'dosmc/crashx.py', 'serves_properties': [k for k, v in CHECKS.items() if v[0] == 'crashx'],
             'kind_free_text': 'exhaustive crash-point / power-loss image / single-fault enumeration over interposed I/O calls'},
            {'name': 'streamx', 'path': 'dosmc/streamx.py', 'serves_properties': [k for k, v in CHECKS.items() if v[0] == 'streamx'],
             'kind_free_text': 'closure of the product state graph (stream implementation x io.BytesIO) over a read/seek/tell alphabet'},
            {'name': 'grids', 'path': 'dosmc/grids.py', 'serves_properties': [k for k, v in CHECKS.items() if v[0] == 'grids'],
             'kind_free_text': 'complete enumeration of finite input/configuration lattices'},
        ],
        'checks': checks,
        'not_applicable': na,
        'notes': 'All checks execute the real implementation from /repo\'s working tree (editable install in /venv); no separate model. See DESIGN.md.',
    }
    man['engines'] = [e for e in man['engines'] if e['serves_properties']]
    path = os.path.join(ROOT, 'MANIFEST.json')
    json.dump(man, open(path, 'w'), indent=1)
    try:
        import jsonschema
        jsonschema.validate(man, json.load(open('/root/.vp/MANIFEST.schema.json')))
        print('MANIFEST.json valid;', len(checks), 'checks,', len(na), 'not claimed')
    except ImportError:
        print('jsonschema not importable here; run with python3-vt to validate')

if __name__ == '__main__':
    main()
