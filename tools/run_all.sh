#!/bin/bash
# usage: run_all.sh [tier] [ids...]  - run the registered checks on the current tree, print exit code and wall time per check
tier=${1:-quick}; shift
ids=${@:-C01 C02 C03 C04 C05 C06 C07 C08 C09 C10 C11 C12 C13 C14 C15 C16 C17 C18}
cd /verif
for id in $ids; do
  t0=$(date +%s)
  /venv/bin/python -m dosmc check $id --tier $tier > /tmp/runall.$id.log 2>&1
  rc=$?
  t1=$(date +%s)
  echo "$id exit=$rc secs=$((t1-t0)) $(grep -c '^VIOLATION' /tmp/runall.$id.log) violations $(grep -c '^KNOWN-FINDING' /tmp/runall.$id.log) known"
done
