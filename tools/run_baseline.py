#!/venv/bin/python
"""Run the repository's test suite (in the given source dir, default /repo) and compare with BASELINE.json.

usage: run_baseline.py [srcdir] [-n N]
Exit 0 iff every test in BASELINE.stable_pass passed.  Prints the stable tests that did not pass.
The package under test is the one in srcdir (PYTHONPATH is set so that a worktree shadows the editable install).
"""
import json, os, subprocess, sys, tempfile, xml.etree.ElementTree as ET

src = '/repo'
n = '8'
args = sys.argv[1:]
while args:
    a = args.pop(0)
    if a == '-n':
        n = args.pop(0)
    else:
        src = os.path.abspath(a)
base = json.load(open('/root/.vp/BASELINE.json'))
stable = set(base['stable_pass'])
fd, junit = tempfile.mkstemp(suffix='.xml'); os.close(fd)
env = dict(os.environ, PYTHONPATH=src)
env.pop('DISK_OBJECTSTORE_VERIF', None)
cmd = ['/venv/bin/python', '-m', 'pytest', '-q', '-p', 'no:cacheprovider', '--timeout=900',
       '--continue-on-collection-errors', f'--junitxml={junit}']
if n != '0':
    cmd += ['-n', n]
r = subprocess.run(cmd, cwd=src, env=env, capture_output=True, text=True)
passed = set()
for tc in ET.parse(junit).getroot().iter('testcase'):
    if not any(ch.tag in ('failure', 'error', 'skipped') for ch in tc):
        passed.add(f"{tc.get('classname')}::{tc.get('name')}")
os.unlink(junit)
missing = sorted(stable - passed)
first_missing = list(missing)
# Timing-sensitive multi-process tests can fail on a loaded machine even on the pinned code: re-run the stable tests that
# did not pass, alone and serially, up to two more times; a test counts as passing if it passes in isolation.
for attempt in range(2):
    if not missing or len(missing) > 12:
        break
    ids = [m.replace('.', '/', m.split('::')[0].count('.')).replace('::', '.py::', 1) for m in missing]
    fd, junit = tempfile.mkstemp(suffix='.xml'); os.close(fd)
    subprocess.run(['/venv/bin/python', '-m', 'pytest', '-q', '-p', 'no:cacheprovider', '--timeout=900', f'--junitxml={junit}'] + ids,
                   cwd=src, env=env, capture_output=True, text=True)
    for tc in ET.parse(junit).getroot().iter('testcase'):
        if not any(ch.tag in ('failure', 'error', 'skipped') for ch in tc):
            passed.add(f"{tc.get('classname')}::{tc.get('name')}")
    os.unlink(junit)
    missing = sorted(stable - passed)
if first_missing != missing:
    print('re-run in isolation (load-sensitive tests):', ', '.join(t for t in first_missing if t not in missing), '-> passed')
print(r.stdout.strip().splitlines()[-1] if r.stdout.strip() else r.stderr[-500:])
print(f'stable baseline tests: {len(stable)}; passed now: {len(stable & passed)}; not passing: {len(missing)}')
for m in missing:
    print('  NOT PASSING:', m)
sys.exit(1 if missing else 0)
