#!/venv/bin/python
"""Run checks against the confirmed seeded defects in /verif/seeded/*, each in its own scratch worktree of /repo HEAD
(PYTHONPATH shadows the editable install, so /repo itself is never touched). Writes /verif/seeded/RESULTS.json.

usage: seeded_matrix.py [--tier quick] [--only NAME ...] [--checks C01,C02 ...]
"""
import json, os, subprocess, sys, time

args = sys.argv[1:]
tier = 'quick'
only = []
checks_override = None
while args:
    a = args.pop(0)
    if a == '--tier':
        tier = args.pop(0)
    elif a == '--checks':
        checks_override = args.pop(0).split(',')
    elif a == '--only':
        only = args
        break
SEEDED = '/verif/seeded'
EXTRA = {   # cross-property detectors worth running in addition to the defect's own property
    'C01-m2': ['C07'], 'C01-m3': ['C08', 'C04'], 'C01-m4': ['C16'],
    'C02-m2': ['C16'], 'C02-m3': ['C05', 'C06', 'C03'], 'C02-m4': ['C01'],
    'C03-m1': ['C05'], 'C03-m2': ['C17', 'C05'], 'C03-m3': ['C01'], 'C03-m4': ['C05', 'C17'],
    'C06-m2': ['C05'], 'C10-m4': ['C07', 'C01'], 'C11-m3': ['C16'], 'C11-m4': ['C03'],
    'C13-m2': ['C05'], 'C13-m4': ['C06'], 'C17-m1': ['C05'],
    'C02-m5': ['C14'], 'C02-m6': ['C14'], 'C04-m5': ['C17'], 'C04-m6': ['C08'], 'C05-m6': ['C15'], 'C12-m5': ['C06'], 'C12-m6': ['C05', 'C17'],
    'C17-m5': ['C05', 'C06'], 'C17-m6': [],
    'C01-m6': ['C02', 'C13'], 'C10-m6': ['C08'], 'C14-m6': ['C02'], 'C15-m6': ['C04', 'C05'], 'C16-m6': ['C14'], 'C18-m6': [],
    'C04-m8': ['C08'], 'C17-m8': [], 'C13-m8': [],
    'C03-m5': ['C17'], 'C03-m6': ['C06'], 'C07-m5': ['C08'], 'C09-m6': ['C01'], 'C11-m6': ['C03'], 'C13-m6': ['C17', 'C05'],
}
res_path = os.environ.get('SM_RESULTS') or os.path.join(SEEDED, 'RESULTS.json')   # SM_RESULTS: separate file for parallel instances (merge afterwards)
results = json.load(open(res_path)) if os.path.exists(res_path) else {}
names = sorted(n for n in os.listdir(SEEDED) if os.path.isdir(os.path.join(SEEDED, n)))
for name in names:
    if only and name not in only:
        continue
    prop = name.split('-')[0]
    checks = checks_override or ([prop] + EXTRA.get(name, []))
    wt = f'/tmp/sm/{name}'
    subprocess.run(['rm', '-rf', wt]); os.makedirs('/tmp/sm', exist_ok=True)
    subprocess.run(['git', '-C', '/repo', 'worktree', 'prune'])
    subprocess.run(['git', '-C', '/repo', 'worktree', 'add', '-q', '--detach', wt, 'HEAD'], check=True)
    try:
        r = subprocess.run(['git', '-C', wt, 'apply', os.path.join(SEEDED, name, 'patch.diff')], capture_output=True, text=True)
        if r.returncode != 0:
            print(name, 'PATCH DOES NOT APPLY', r.stderr[:200]); results.setdefault(name, {})['applies'] = False
            continue
        for chk in checks:
            out = f'/tmp/sm-out/{name}'
            os.makedirs(out, exist_ok=True)
            env = dict(os.environ, PYTHONPATH=wt, DOSMC_OUT_DIR=out)
            t0 = time.time()
            p = subprocess.run(['/venv/bin/python', '-m', 'dosmc', 'check', chk, '--tier', tier], cwd='/verif', env=env, capture_output=True, text=True)
            first = [l for l in p.stderr.splitlines() if f'{chk}:' in l and 'done in' not in l][:1]
            results.setdefault(name, {})[f'{chk}:{tier}'] = {'exit': p.returncode, 'secs': round(time.time() - t0), 'violation_lines': p.stdout.count('VIOLATION'),
                                                              'first': first[0][:300] if first else ''}
            print(name, chk, tier, 'exit', p.returncode, f'{time.time() - t0:.0f}s', first[0][:160] if first else '', flush=True)
            json.dump(results, open(res_path, 'w'), indent=1, sort_keys=True)
    finally:
        subprocess.run(['git', '-C', '/repo', 'worktree', 'remove', '--force', wt])
        subprocess.run(['rm', '-rf', wt])
json.dump(results, open(res_path, 'w'), indent=1, sort_keys=True)
