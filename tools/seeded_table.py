#!/venv/bin/python
"""Regenerate the 'seeded defects vs checks' table in DESIGN.md (between the markers) from seeded/RESULTS.json + meta.json files."""
import json, os, re
S = '/verif/seeded'
res = json.load(open(os.path.join(S, 'RESULTS.json')))
rows = []
for name in sorted(d for d in os.listdir(S) if os.path.isdir(os.path.join(S, d))):
    meta = json.load(open(os.path.join(S, name, 'meta.json')))
    summ = re.sub(r'\s+', ' ', meta.get('summary', ''))[:150].replace('|', '/')
    r = res.get(name, {})
    caught = sorted(k.split(':')[0] for k, v in r.items() if isinstance(v, dict) and v.get('exit') == 1)
    missed = sorted(k.split(':')[0] for k, v in r.items() if isinstance(v, dict) and v.get('exit') == 0)
    other = sorted(k.split(':')[0] for k, v in r.items() if isinstance(v, dict) and v.get('exit') not in (0, 1))
    rows.append(f'| {name} | {summ} | {", ".join(caught) or "-"} | {", ".join(missed) or "-"}{(" (error: " + ", ".join(other) + ")") if other else ""} |')
table = '| seeded defect | what it does (from its meta.json) | caught by (quick tier) | run but silent |\n|---|---|---|---|\n' + '\n'.join(rows)
p = '/verif/DESIGN.md'
s = open(p).read()
a, b = '<!-- SEEDED-TABLE-BEGIN -->', '<!-- SEEDED-TABLE-END -->'
if a in s:
    s = s[:s.index(a) + len(a)] + '\n' + table + '\n' + s[s.index(b):]
    open(p, 'w').write(s)
    print('table updated:', len(rows), 'rows')
else:
    print(table)
