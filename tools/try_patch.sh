#!/bin/bash
# usage: try_patch.sh <patch.diff | revert:<sha>> <tier> <ID> [<ID>...]
# Applies the change to /repo's working tree, runs the given checks (evidence/replays redirected to
# /tmp/dosmc-try/<name>), and restores /repo. Prints one line per check: ID exit-code seconds.
set -u
what="$1"; tier="$2"; shift 2
if ! git -C /repo diff --quiet; then echo "REFUSING: /repo working tree is dirty"; exit 2; fi
name=$(echo "$what" | tr '/:' '__')
out=/tmp/dosmc-try/$name; mkdir -p "$out"
if [[ "$what" == revert:* ]]; then
  git -C /repo show "${what#revert:}" | git -C /repo apply -R || { echo "cannot revert"; exit 2; }
else
  git -C /repo apply "$what" || { echo "cannot apply"; exit 2; }
fi
trap 'git -C /repo checkout -- .' EXIT
cd /verif
for id in "$@"; do
  t0=$(date +%s)
  DOSMC_OUT_DIR=$out /venv/bin/python -m dosmc check "$id" --tier "$tier" > "$out/$id.log" 2>&1
  rc=$?
  t1=$(date +%s)
  echo "$id exit=$rc secs=$((t1-t0)) $(grep -c '^VIOLATION' "$out/$id.log") violation-lines; log $out/$id.log"
  grep '^VIOLATION' "$out/$id.log" | head -3
done
